import GapicModel.Model.Metadata
import GapicModel.Pinned.Funcs
/-
C15 — gapic_metadata.json and the fix-up script describe the generated surface exactly.
Property theorems about `Model/Metadata.lean` (+ the helper lemmas they need, in `section Aux`).
No Mathlib.
-/
namespace GapicModel.Props.C15
open GapicModel.Model.Metadata

section Aux
variable {α β γ : Type}

theorem insertBy_perm (key : α → Str) (x : α) (l : List α) : (insertBy key x l).Perm (x :: l) := by
  induction l with
  | nil => simp [insertBy]
  | cons y ys ih =>
    simp only [insertBy]
    split
    · exact ((List.Perm.cons y ih).trans (List.Perm.swap x y ys))
    · exact List.Perm.refl _

theorem sortBy_perm (key : α → Str) (l : List α) : (sortBy key l).Perm l := by
  induction l with
  | nil => simp [sortBy]
  | cons x xs ih => exact (insertBy_perm key x _).trans (List.Perm.cons x ih)

theorem perm_flatMap_left (l : List α) {f g : α → List β} (h : ∀ a ∈ l, (f a).Perm (g a)) :
    (l.flatMap f).Perm (l.flatMap g) := by
  induction l with
  | nil => simp
  | cons a l ih =>
    simp only [List.flatMap_cons]
    exact List.Perm.append (h a (by simp)) (ih fun b hb => h b (by simp [hb]))

theorem nodup_of_map (f : α → β) : ∀ {l : List α}, (l.map f).Nodup → l.Nodup
  | [], _ => List.nodup_nil
  | a :: l, h => by
    simp only [List.map_cons, List.nodup_cons] at h ⊢
    exact ⟨fun ha => h.1 (List.mem_map_of_mem ha), nodup_of_map f h.2⟩

/-- elements carry a tag that identifies the bucket they come from; buckets with distinct tags and
duplicate-free contents give a duplicate-free concatenation -/
theorem nodup_flatMap_tagged (tag : β → γ) (tg : α → γ) (f : α → List β) :
    ∀ (l : List α), (∀ x ∈ l, (f x).Nodup) → (∀ x ∈ l, ∀ y ∈ f x, tag y = tg x) → (l.map tg).Nodup →
      (l.flatMap f).Nodup
  | [], _, _, _ => by simp
  | a :: l, h1, h2, h3 => by
    simp only [List.map_cons, List.nodup_cons] at h3
    simp only [List.flatMap_cons, List.nodup_append]
    refine ⟨h1 a (by simp), nodup_flatMap_tagged tag tg f l (fun x hx => h1 x (by simp [hx]))
      (fun x hx => h2 x (by simp [hx])) h3.2, ?_⟩
    intro y hy z hz hyz
    obtain ⟨x, hx, hzx⟩ := List.mem_flatMap.mp hz
    have e1 := h2 a (by simp) y hy
    have e2 := h2 x (by simp [hx]) z hzx
    apply h3.1
    rw [← e1, hyz, e2]
    exact List.mem_map_of_mem hx

theorem upsert_fresh (key : α → Str) (k : Str) (fresh : α) (f : α → α) :
    ∀ (l : List α), (∀ x ∈ l, key x ≠ k) → upsert key k fresh f l = l ++ [f fresh]
  | [], _ => by simp [upsert]
  | x :: xs, h => by
    have hx := h x (by simp)
    simp only [upsert, hx, if_false, List.cons_append]
    rw [upsert_fresh key k fresh f xs (fun y hy => h y (by simp [hy]))]

/-- a run of `get_or_create` + update over pairwise distinct, not yet present keys appends one fresh,
updated entry per element, in order -/
theorem foldl_upsert_fresh (key : α → Str) (kf : β → Str) (fresh : β → α) (f : β → α → α)
    (hk : ∀ b, key (f b (fresh b)) = kf b) :
    ∀ (xs : List β) (acc : List α), (xs.map kf).Nodup → (∀ a ∈ acc, ∀ b ∈ xs, key a ≠ kf b) →
      xs.foldl (fun acc b => upsert key (kf b) (fresh b) (f b) acc) acc = acc ++ xs.map (fun b => f b (fresh b))
  | [], acc, _, _ => by simp
  | b :: xs, acc, hnd, hacc => by
    simp only [List.map_cons, List.nodup_cons] at hnd
    simp only [List.foldl_cons]
    rw [upsert_fresh key (kf b) (fresh b) (f b) acc (fun a ha => hacc a ha b (by simp))]
    rw [foldl_upsert_fresh key kf fresh f hk xs _ hnd.2]
    · simp
    · intro a ha b' hb'
      rcases List.mem_append.mp ha with ha | ha
      · exact hacc a ha b' (by simp [hb'])
      · simp only [List.mem_singleton] at ha
        subst ha
        rw [hk]
        intro e
        exact hnd.1 (e ▸ List.mem_map_of_mem hb')

theorem uniqueBy_sub (key : α → Str) : ∀ (l : List α) (seen : List Str) (y : α), y ∈ uniqueBy key l seen → y ∈ l
  | [], _, _, h => by simp [uniqueBy] at h
  | x :: xs, seen, y, h => by
    simp only [uniqueBy] at h
    split at h
    · exact List.mem_cons_of_mem _ (uniqueBy_sub key xs seen y h)
    · rcases List.mem_cons.mp h with h | h
      · simp [h]
      · exact List.mem_cons_of_mem _ (uniqueBy_sub key xs _ y h)

/-- every key that was not seen before survives `unique`, carried by its FIRST element -/
theorem uniqueBy_covers (key : α → Str) : ∀ (l : List α) (seen : List Str) (x : α), x ∈ l → key x ∉ seen →
    ∃ y ∈ uniqueBy key l seen, key y = key x
  | [], _, _, h, _ => by simp at h
  | a :: l, seen, x, h, hs => by
    simp only [uniqueBy]
    by_cases ha : seen.contains (key a) = true
    · simp only [ha, if_true]
      rcases List.mem_cons.mp h with h | h
      · subst h; exact absurd (List.contains_iff_mem.mp ha) hs
      · exact uniqueBy_covers key l seen x h hs
    · simp only [ha]
      by_cases e : key a = key x
      · exact ⟨a, by simp, e⟩
      · rcases List.mem_cons.mp h with h | h
        · subst h; exact absurd rfl e
        · obtain ⟨y, hy, hk⟩ := uniqueBy_covers key l (key a :: seen) x h
            (by simp only [List.mem_cons, not_or]; exact ⟨fun e' => e e'.symm, hs⟩)
          exact ⟨y, List.mem_cons_of_mem _ hy, hk⟩

theorem uniqueBy_id_of_nodup : ∀ (l : List Str) (seen : List Str), l.Nodup → (∀ x ∈ l, x ∉ seen) →
    uniqueBy id l seen = l
  | [], _, _, _ => by simp [uniqueBy]
  | a :: l, seen, hnd, hs => by
    simp only [List.nodup_cons] at hnd
    have ha : seen.contains (id a) = false := by
      cases hc : seen.contains (id a) with
      | false => rfl
      | true => exact absurd (List.contains_iff_mem.mp hc) (hs a (by simp))
    simp only [uniqueBy, ha]
    rw [uniqueBy_id_of_nodup l (id a :: seen) hnd.2]
    · simp
    · intro x hx
      simp only [id, List.mem_cons, not_or]
      exact ⟨fun e => hnd.1 (e ▸ hx), hs x (by simp [hx])⟩

theorem partitionGo_eq (p : α → Bool) : ∀ (xs f t : List α),
    partitionGo p xs (f, t) = (f ++ xs.filter (fun x => !p x), t ++ xs.filter p)
  | [], f, t => by simp [partitionGo]
  | x :: xs, f, t => by
    simp only [partitionGo]
    cases h : p x <;> simp [h, partitionGo_eq p xs]

/-- `utils.partition` is the stable partition: (elements satisfying `p`, the others), each in order -/
theorem partition_eq_filter (p : α → Bool) (xs : List α) :
    partition p xs = (xs.filter p, xs.filter (fun x => !p x)) := by
  simp [partition, partitionGo_eq]

theorem fst_inj_of_nodup : ∀ {l : List (α × β)}, (l.map (·.1)).Nodup → ∀ a ∈ l, ∀ b ∈ l, a.1 = b.1 → a = b
  | [], _, a, ha, _, _, _ => by simp at ha
  | x :: l, h, a, ha, b, hb, e => by
    simp only [List.map_cons, List.nodup_cons] at h
    rcases List.mem_cons.mp ha with ha | ha <;> rcases List.mem_cons.mp hb with hb | hb
    · rw [ha, hb]
    · have : b.1 ∈ l.map (·.1) := List.mem_map_of_mem (f := (·.1)) hb
      rw [← e, ha] at this
      exact absurd this h.1
    · have : a.1 ∈ l.map (·.1) := List.mem_map_of_mem (f := (·.1)) ha
      rw [e, hb] at this
      exact absurd this h.1
    · exact fst_inj_of_nodup h.2 a ha b hb e

end Aux

/-! ## Well-formedness (what protoc guarantees, plus the quantifier's "one target package") -/

/-- service names are pairwise distinct (one proto package, no sub-packages); RPC names are pairwise
distinct inside a service (protoc) -/
structure WF (api : Api) : Prop where
  services_nodup : (api.services.map (·.name)).Nodup
  methods_nodup : ∀ s ∈ api.services, (s.methods.map (·.name)).Nodup

instance (api : Api) : Decidable (WF api) :=
  decidable_of_iff ((api.services.map (·.name)).Nodup ∧ ∀ s ∈ api.services, (s.methods.map (·.name)).Nodup)
    ⟨fun h => ⟨h.1, h.2⟩, fun h => ⟨h.1, h.2⟩⟩

/-! ## The metadata without maps and sorting -/

def rpcEntries (ms : List MethodS) : List RpcEntry := ms.map fun m => ⟨m.name, [pyMethodName m]⟩

def clientEntries (tr : Transports) (s : ServiceS) : List ClientEntry :=
  (clientKinds tr s).map fun kc => ⟨kc.1, kc.2, rpcEntries (sortBy (·.name) s.methods)⟩

def serviceEntries (api : Api) (tr : Transports) : List ServiceEntry :=
  (sortBy (·.name) api.services).map fun s => ⟨s.name, clientEntries tr s⟩

section Aux

theorem clientKinds_keys_nodup (tr : Transports) (s : ServiceS) : ((clientKinds tr s).map (·.1)).Nodup := by
  unfold clientKinds
  cases tr.contains sGrpc <;> cases tr.contains sRest <;>
    simp only [if_true, if_false, Bool.false_eq_true, List.map_append, List.map_cons, List.map_nil,
      List.append_nil, List.nil_append, List.cons_append] <;> decide

theorem rpcs_simple (ms : List MethodS) (h : (ms.map (·.name)).Nodup) :
    ms.foldl (fun acc m => addMethod m acc) [] = rpcEntries ms := by
  have := foldl_upsert_fresh (α := RpcEntry) (β := MethodS) (·.rpc) (·.name) (fun m => ⟨m.name, []⟩)
    (fun m e => { e with methods := e.methods ++ [pyMethodName m] }) (fun _ => rfl) ms [] h (by simp)
  simpa [addMethod, rpcEntries] using this

theorem clients_simple (tr : Transports) (s : ServiceS) (h : (s.methods.map (·.name)).Nodup) :
    (clientKinds tr s).foldl (fun acc kc => addClient (sortBy (·.name) s.methods) kc acc) [] = clientEntries tr s := by
  have hs : ((sortBy (·.name) s.methods).map (·.name)).Nodup :=
    ((sortBy_perm _ _).map _).nodup_iff.mpr h
  have := foldl_upsert_fresh (α := ClientEntry) (β := Str × Str) (·.kind) (·.1) (fun kc => ⟨kc.1, [], []⟩)
    (fun kc c => { c with libraryClient := kc.2,
                          rpcs := (sortBy (·.name) s.methods).foldl (fun acc m => addMethod m acc) c.rpcs })
    (fun _ => rfl) (clientKinds tr s) [] (clientKinds_keys_nodup tr s) (by simp)
  simp only [List.nil_append] at this
  unfold addClient
  rw [this]
  simp [clientEntries, rpcs_simple _ hs]

end Aux

/-- Under `WF` the nested `get_or_create` construction is the plain nested map over the sorted
services and methods: no entry is ever merged into an existing one. -/
theorem metadata_services_simple (api : Api) (tr : Transports) (h : WF api) :
    (gapicMetadata api tr).services = serviceEntries api tr := by
  have hp := sortBy_perm (fun s : ServiceS => s.name) api.services
  have hs : ((sortBy (·.name) api.services).map (·.name)).Nodup := (hp.map _).nodup_iff.mpr h.services_nodup
  have := foldl_upsert_fresh (α := ServiceEntry) (β := ServiceS) (·.name) (·.name) (fun s => ⟨s.name, []⟩)
    (fun s e => { e with clients :=
      (clientKinds tr s).foldl (fun acc kc => addClient (sortBy (·.name) s.methods) kc acc) e.clients })
    (fun _ => rfl) (sortBy (·.name) api.services) [] hs (by simp)
  simp only [List.nil_append] at this
  unfold gapicMetadata addService
  simp only
  rw [this]
  unfold serviceEntries
  apply List.map_congr_left
  intro s hsm
  rw [clients_simple tr s (h.methods_nodup s (hp.mem_iff.mp hsm))]

/-! ## Core theorems -/

/-- **Every (service, client kind, RPC) is listed, with the client class and method name the
templates use, and nothing else is**: as a multiset the rows of the metadata are exactly the rows the
statement asks for. -/
theorem metadata_complete_once (api : Api) (tr : Transports) (h : WF api) :
    (gapicMetadata api tr).rows.Perm (expectedRows api tr) := by
  unfold Metadata.rows
  rw [metadata_services_simple api tr h]
  unfold serviceEntries expectedRows
  rw [List.flatMap_map]
  refine (List.Perm.flatMap_right _ (sortBy_perm _ api.services)).trans ?_
  apply perm_flatMap_left
  intro s _
  simp only [clientEntries, List.flatMap_map]
  apply perm_flatMap_left
  intro kc _
  simp only [rpcEntries, List.flatMap_map, List.map_cons, List.map_nil]
  have : ∀ l : List MethodS,
      l.flatMap (fun m => [(⟨s.name, kc.1, kc.2, m.name, pyMethodName m⟩ : Row)]) =
      l.map (fun m => (⟨s.name, kc.1, kc.2, m.name, pyMethodName m⟩ : Row)) := by
    intro l; induction l <;> simp_all
  rw [this]
  exact (sortBy_perm _ s.methods).map _

/-- **… exactly once**: no (service, kind, rpc) key occurs twice among the expected rows … -/
theorem expected_keys_nodup (api : Api) (tr : Transports) (h : WF api) :
    ((expectedRows api tr).map fun r => (r.service, r.kind, r.rpc)).Nodup := by
  unfold expectedRows
  rw [List.map_flatMap]
  refine nodup_flatMap_tagged (fun k => k.1) (fun s : ServiceS => s.name) _ api.services ?_ ?_ h.services_nodup
  · intro s hs
    rw [List.map_flatMap]
    refine nodup_flatMap_tagged (fun k => k.2.1) (fun kc : Str × Str => kc.1) _ (clientKinds tr s) ?_ ?_
      (clientKinds_keys_nodup tr s)
    · intro kc _
      simp only [List.map_map]
      apply nodup_of_map (fun k : Str × Str × Str => k.2.2)
      simpa [List.map_map, Function.comp_def] using h.methods_nodup s hs
    · intro kc _ y hy
      simp only [List.map_map, List.mem_map, Function.comp] at hy
      obtain ⟨m, _, rfl⟩ := hy
      rfl
  · intro s _ y hy
    simp only [List.map_flatMap, List.map_map, List.mem_flatMap, List.mem_map, Function.comp] at hy
    obtain ⟨kc, _, m, _, rfl⟩ := hy
    rfl

/-- … hence none occurs twice in the metadata. -/
theorem metadata_keys_nodup (api : Api) (tr : Transports) (h : WF api) :
    ((gapicMetadata api tr).rows.map fun r => (r.service, r.kind, r.rpc)).Nodup :=
  (((metadata_complete_once api tr h).map _).nodup_iff).mpr (expected_keys_nodup api tr h)

/-- **Client kinds are exactly those implied by the transports**: `grpc` ⇒ `grpc` and `grpc-async`,
`rest` ⇒ `rest`, nothing else (unknown transport labels contribute nothing). -/
theorem client_kinds_exact (tr : Transports) (s : ServiceS) (k : Str) :
    k ∈ (clientKinds tr s).map (·.1) ↔
      ((k = sGrpc ∨ k = sGrpcAsync) ∧ sGrpc ∈ tr) ∨ (k = sRest ∧ sRest ∈ tr) := by
  rw [← List.contains_iff_mem (a := sGrpc), ← List.contains_iff_mem (a := sRest)]
  unfold clientKinds
  cases tr.contains sGrpc <;> cases tr.contains sRest <;>
    simp only [if_true, if_false, Bool.false_eq_true, List.map_append, List.map_cons, List.map_nil,
      List.append_nil, List.nil_append, List.cons_append, List.mem_cons, List.not_mem_nil, or_false, and_true,
      and_false, false_or, or_false]
  · exact or_assoc.symm

/-- the kind → class assignment: `grpc` and `rest` name the synchronous client, `grpc-async` the asyncio one -/
theorem client_kinds_classes (tr : Transports) (s : ServiceS) (kc : Str × Str) (h : kc ∈ clientKinds tr s) :
    (kc.1 = sGrpcAsync ∧ kc.2 = asyncClientName s ∧ sGrpc ∈ tr) ∨
    (kc.1 = sGrpc ∧ kc.2 = clientName s ∧ sGrpc ∈ tr) ∨ (kc.1 = sRest ∧ kc.2 = clientName s ∧ sRest ∈ tr) := by
  rw [← List.contains_iff_mem (a := sGrpc), ← List.contains_iff_mem (a := sRest)]
  revert h
  unfold clientKinds
  cases tr.contains sGrpc <;> cases tr.contains sRest <;> intro h <;>
    simp only [if_true, if_false, Bool.false_eq_true, List.append_nil, List.nil_append, List.cons_append,
      List.mem_cons, List.not_mem_nil, or_false] at h
  · subst h; simp
  · rcases h with h | h <;> subst h <;> simp
  · rcases h with h | h | h <;> subst h <;> simp

/-- every service of the API has one entry, and its client kinds are exactly the implied ones -/
theorem metadata_kinds_exact (api : Api) (tr : Transports) (h : WF api) :
    ((gapicMetadata api tr).services.map fun se => (se.name, se.clients.map (·.kind))).Perm
      (api.services.map fun s => (s.name, (clientKinds tr s).map (·.1))) := by
  rw [metadata_services_simple api tr h]
  unfold serviceEntries clientEntries
  simp only [List.map_map, Function.comp_def]
  exact (sortBy_perm _ api.services).map _

/-- the (service, client kind, client class) triples of the metadata — present also for a service that
declares NO RPC, which has no `Row` at all (`metadata_complete_once` is silent about such a service) -/
def clientRows (md : Metadata) : List (Str × Str × Str) :=
  md.services.flatMap fun s => s.clients.map fun c => (s.name, c.kind, c.libraryClient)

def expectedClientRows (api : Api) (tr : Transports) : List (Str × Str × Str) :=
  api.services.flatMap fun s => (clientKinds tr s).map fun kc => (s.name, kc.1, kc.2)

/-- **Every service — with or without RPCs — is listed once per implied client kind, with its client class**:
as a multiset the (service, kind, class) triples of the metadata are exactly the expected ones.  No hypothesis on
`s.methods`: a service `service Heartbeat {}` has its entry, its kinds and its `libraryClient`s. -/
theorem metadata_clients_complete_once (api : Api) (tr : Transports) (h : WF api) :
    (clientRows (gapicMetadata api tr)).Perm (expectedClientRows api tr) := by
  unfold clientRows expectedClientRows
  rw [metadata_services_simple api tr h]
  unfold serviceEntries
  rw [List.flatMap_map]
  refine (List.Perm.flatMap_right _ (sortBy_perm _ api.services)).trans ?_
  apply perm_flatMap_left
  intro s _
  simp only [clientEntries, List.map_map, Function.comp_def]
  exact List.Perm.refl _

/-- **From the emitted package towards the metadata**: every client class the library package exports (also the
classes of a service without RPCs) is the `libraryClient` of a listed (service, kind).  Hypothesis: at least one of
grpc / rest is requested (`Options.build` guarantees it). -/
theorem emitted_classes_listed (api : Api) (tr : Transports) (h : WF api) (htr : sGrpc ∈ tr ∨ sRest ∈ tr)
    (c : Str × List Str) (hc : c ∈ emittedClasses api tr) :
    ∃ r ∈ clientRows (gapicMetadata api tr), r.2.2 = c.1 := by
  simp only [emittedClasses, List.mem_flatMap] at hc
  obtain ⟨s, hs, hc⟩ := hc
  have hk : ∃ kc ∈ clientKinds tr s, kc.2 = c.1 := by
    rw [List.mem_cons] at hc
    rcases hc with rfl | hc
    · rcases htr with hg | hr
      · exact ⟨(sGrpc, clientName s), by simp [clientKinds, hg], rfl⟩
      · exact ⟨(sRest, clientName s), by simp [clientKinds, hr], rfl⟩
    · by_cases hg : sGrpc ∈ tr
      · simp [hg] at hc
        subst hc
        exact ⟨(sGrpcAsync, asyncClientName s), by simp [clientKinds, hg], rfl⟩
      · simp [hg] at hc
  obtain ⟨kc, hkc, hkn⟩ := hk
  refine ⟨(s.name, kc.1, kc.2), ?_, hkn⟩
  apply (metadata_clients_complete_once api tr h).mem_iff.mpr
  simp only [expectedClientRows, List.mem_flatMap, List.mem_map]
  exact ⟨s, hs, kc, hkc, rfl⟩

/-- **Proto package and library package are recorded** (`".".join(namespace + (versioned module,))`). -/
theorem packages_recorded (api : Api) (tr : Transports) :
    (gapicMetadata api tr).protoPackage = api.protoPackage ∧
    (gapicMetadata api tr).libraryPackage = joinDot (api.ns ++ [api.versionedModule]) := ⟨rfl, rfl⟩

/-- **A library without a namespace part** (`naming.module_namespace == ()`: proto package `<name>.<version>`, no
namespace option): the library package is the versioned module name itself — the top-level directory the library
is emitted into —, nothing (no separator) is put in front of it. -/
theorem library_package_no_namespace (api : Api) (tr : Transports) (h : api.ns = []) :
    (gapicMetadata api tr).libraryPackage = api.versionedModule := by
  show joinDot (api.ns ++ [api.versionedModule]) = api.versionedModule
  rw [h]; rfl

/-- the class names the library package exports are pairwise distinct
(fails e.g. for services `Foo` and `FooAsync`: both own a `FooAsyncClient`) -/
abbrev ClassNamesDistinct (api : Api) (tr : Transports) : Prop := ((emittedClasses api tr).map (·.1)).Nodup

/-- **The listed client class is emitted and the listed method is one of its methods** — for every
class the package exports under that name.  Hypotheses: `WF`; exported class names distinct; and for
`grpc-async` rows, no extended-operation RPC (the asyncio client only has `<m>_unary` for those; see
`names_exist_extended_operation_async_counterexample`). -/
theorem metadata_names_exist (api : Api) (tr : Transports) (h : WF api) (hc : ClassNamesDistinct api tr)
    (r : Row) (hr : r ∈ (gapicMetadata api tr).rows)
    (hext : r.kind = sGrpcAsync → ∀ s ∈ api.services, ∀ m ∈ s.methods, m.extOp = false) :
    (∃ c ∈ emittedClasses api tr, c.1 = r.client) ∧
    (∀ c ∈ emittedClasses api tr, c.1 = r.client → r.method ∈ c.2) := by
  have hr' := (metadata_complete_once api tr h).mem_iff.mp hr
  simp only [expectedRows, List.mem_flatMap, List.mem_map] at hr'
  obtain ⟨s, hs, kc, hkc, m, hm, rfl⟩ := hr'
  have key : ∃ c ∈ emittedClasses api tr, c.1 = kc.2 ∧ pyMethodName m ∈ c.2 := by
    rcases client_kinds_classes tr s kc hkc with ⟨hk, hcn, hg⟩ | ⟨_, hcn, _⟩ | ⟨_, hcn, _⟩
    · refine ⟨(asyncClientName s, emittedAsyncMethods s), ?_, hcn.symm, ?_⟩
      · simp only [emittedClasses, List.mem_flatMap]
        exact ⟨s, hs, by simp [hg]⟩
      · simp only [emittedAsyncMethods, List.mem_map]
        exact ⟨m, hm, by simp [hext hk s hs m hm]⟩
    all_goals
      refine ⟨(clientName s, emittedSyncMethods s), ?_, hcn.symm, ?_⟩
      · simp only [emittedClasses, List.mem_flatMap]
        exact ⟨s, hs, by simp⟩
      · simp only [emittedSyncMethods, List.mem_flatMap]
        exact ⟨m, hm, by cases m.extOp <;> simp⟩
  obtain ⟨c0, hc0, hn0, hm0⟩ := key
  refine ⟨⟨c0, hc0, hn0⟩, ?_⟩
  intro c hcm hcn
  have : c = c0 := fst_inj_of_nodup hc c hcm c0 hc0 (hcn.trans hn0.symm)
  rw [this]; exact hm0

/-- **Legacy flattening order**: required fields first, the others after, each group in declaration
order (python-level names pairwise distinct: no message has both `class` and `class_`). -/
theorem legacy_order (m : MethodS) (h : (m.fields.map (pyFieldName m.protoPlus)).Nodup) :
    legacyNames m =
      (m.fields.filter (·.required) ++ m.fields.filter (fun f => !f.required)).map (pyFieldName m.protoPlus) := by
  unfold legacyNames dictKeys
  rw [partition_eq_filter]
  apply uniqueBy_id_of_nodup
  · exact (((List.filter_append_perm (fun f : FieldS => f.required) m.fields).map _).nodup_iff).mpr h
  · simp

/-- … and it lists every request field exactly once. -/
theorem legacy_perm (m : MethodS) (h : (m.fields.map (pyFieldName m.protoPlus)).Nodup) :
    (legacyNames m).Perm (m.fields.map (pyFieldName m.protoPlus)) := by
  rw [legacy_order m h]
  exact (List.filter_append_perm _ _).map _

theorem inj_of_nodup_map {α β : Type} (f : α → β) : ∀ {l : List α}, (l.map f).Nodup →
    ∀ a ∈ l, ∀ b ∈ l, f a = f b → a = b
  | [], _, a, ha, _, _, _ => by simp at ha
  | x :: l, h, a, ha, b, hb, hab => by
    rw [List.map_cons, List.nodup_cons] at h
    rcases List.mem_cons.mp ha with rfl | ha' <;> rcases List.mem_cons.mp hb with rfl | hb'
    · rfl
    · exact absurd (List.mem_map.mpr ⟨b, hb', hab.symm⟩) h.1
    · exact absurd (List.mem_map.mpr ⟨a, ha', hab⟩) h.1
    · exact inj_of_nodup_map f h.2 a ha' b hb' hab

/-- **Required first, whatever the field's presence**: the model's field is (name, REQUIRED, number) — whether it is
a plain field, a proto3 `optional` field (synthetic oneof) or a member of a real oneof is not an input of
`legacyNames`.  So for every request the list splits into the REQUIRED fields (all of them, in declaration order)
followed by the others (in declaration order): a REQUIRED `optional` / oneof-member field declared after
non-required fields still comes before every non-required one. -/
theorem legacy_required_first_presence_irrelevant (m : MethodS) (h : (m.fields.map (pyFieldName m.protoPlus)).Nodup) :
    ∃ pre post, legacyNames m = pre ++ post ∧
      pre = (m.fields.filter (·.required)).map (pyFieldName m.protoPlus) ∧
      post = (m.fields.filter (fun f => !f.required)).map (pyFieldName m.protoPlus) ∧
      (∀ f ∈ m.fields, f.required = true → pyFieldName m.protoPlus f ∈ pre) ∧
      (∀ f ∈ m.fields, f.required = false → pyFieldName m.protoPlus f ∈ post ∧ pyFieldName m.protoPlus f ∉ pre) := by
  refine ⟨_, _, ?_, rfl, rfl, ?_, ?_⟩
  · rw [legacy_order m h, List.map_append]
  · intro f hf hr
    exact List.mem_map.mpr ⟨f, List.mem_filter.mpr ⟨hf, by simp [hr]⟩, rfl⟩
  · intro f hf hr
    refine ⟨List.mem_map.mpr ⟨f, List.mem_filter.mpr ⟨hf, by simp [hr]⟩, rfl⟩, ?_⟩
    intro hmem
    obtain ⟨g, hg, hgf⟩ := List.mem_map.mp hmem
    have hgm := (List.mem_filter.mp hg)
    have : g = f := inj_of_nodup_map _ h g hgm.1 f hf hgf
    rw [this, hr] at hgm
    simp at hgm

/-- every request field is listed: nothing is dropped, nothing is added -/
theorem legacy_lists_every_field (m : MethodS) (h : (m.fields.map (pyFieldName m.protoPlus)).Nodup) :
    (legacyNames m).length = m.fields.length := by
  rw [(legacy_perm m h).length_eq, List.length_map]

/-- **A request declared in ANOTHER proto package than the RPC** (a dependency file: `acme.common.SharedRequest`,
`google.iam.v1.SetIamPolicyRequest`; its address is not proto-plus, `m.protoPlus = false`): the entry is ALL its
fields under their descriptor names — reserved words included, without a trailing underscore —, required first,
otherwise in declaration order.  The model's field carries no type: scalar, message-, enum-typed, repeated and map
fields are treated alike; the request's package is not an input of `legacyNames` at all (next theorem). -/
theorem legacy_cross_package_request (m : MethodS) (hp : m.protoPlus = false) (h : (m.fields.map (·.name)).Nodup) :
    legacyNames m =
      (m.fields.filter (·.required)).map (·.name) ++ (m.fields.filter (fun f => !f.required)).map (·.name) := by
  have hfun : pyFieldName m.protoPlus = (fun f : FieldS => f.name) := by
    funext f; simp [pyFieldName, hp]
  rw [legacy_order m (by rw [hfun]; exact h), hfun, List.map_append]

/-- **The table entry is a function of the request's field list (and of whether it is a proto-plus message) only**:
the RPC's name, package, visibility, kind do not matter — an RPC whose request lives in another package gets the
same entry as one declaring the same (non-reserved) fields locally. -/
theorem legacy_depends_on_fields_only (m m' : MethodS) (hp : m.protoPlus = m'.protoPlus) (hf : m.fields = m'.fields) :
    legacyNames m = legacyNames m' := by
  unfold legacyNames; rw [hp, hf]

theorem legacy_local_vs_cross_package (m m' : MethodS) (hf : m.fields = m'.fields)
    (hr : ∀ f ∈ m.fields, memStr Pinned.reservedNames f.name = false) :
    legacyNames m = legacyNames m' := by
  have key : ∀ (b b' : Bool) (fs : List FieldS), (∀ f ∈ fs, memStr Pinned.reservedNames f.name = false) →
      fs.map (pyFieldName b) = fs.map (pyFieldName b') := by
    intro b b' fs hfs
    apply List.map_congr_left
    intro f hfm
    simp [pyFieldName, hfs f hfm]
  unfold legacyNames
  rw [← hf, partition_eq_filter]
  simp only
  have hsub : ∀ f ∈ m.fields.filter (fun x => x.required) ++ m.fields.filter (fun x => !x.required),
      memStr Pinned.reservedNames f.name = false := by
    intro f hfm
    rcases List.mem_append.mp hfm with h | h <;> exact hr f (List.mem_filter.mp h).1
  rw [key m.protoPlus m'.protoPlus _ hsub]

/-- **The legacy order does not depend on the field numbers**: two requests that declare the same
(name, REQUIRED) sequence get the same list, whatever numbers the fields carry — in particular
renumbering a message (fields added later, regrouped) never reorders the fix-up parameters. -/
theorem legacy_order_number_independent (m m' : MethodS) (hp : m.protoPlus = m'.protoPlus)
    (h : m.fields.map (fun f => (f.name, f.required)) = m'.fields.map (fun f => (f.name, f.required))) :
    legacyNames m = legacyNames m' := by
  have key : ∀ (fs fs' : List FieldS),
      fs.map (fun f => (f.name, f.required)) = fs'.map (fun f => (f.name, f.required)) →
      ∀ (p : Bool → Bool), (fs.filter (fun f => p f.required)).map (pyFieldName m.protoPlus) =
        (fs'.filter (fun f => p f.required)).map (pyFieldName m.protoPlus) := by
    intro fs
    induction fs with
    | nil => intro fs' h; cases fs' <;> simp_all
    | cons a fs ih =>
      intro fs' h p
      cases fs' with
      | nil => simp at h
      | cons b fs' =>
        simp only [List.map_cons, List.cons.injEq, Prod.mk.injEq] at h
        obtain ⟨⟨hn, hr⟩, ht⟩ := h
        have hpy : pyFieldName m.protoPlus a = pyFieldName m.protoPlus b := by simp [pyFieldName, hn]
        simp only [List.filter_cons, hr]
        split <;> simp [hpy, ih fs' ht p]
  unfold legacyNames
  rw [partition_eq_filter, partition_eq_filter, ← hp]
  simp only [List.map_append]
  have h1 := key m.fields m'.fields h id
  have h2 := key m.fields m'.fields h not
  simp only [id] at h1
  rw [h1]
  congr 2

/-- `ApplyShared(acme.common.SharedRequest)`: note, spec (message, REQUIRED), parent (REQUIRED), filter_spec (message),
kind (enum), tags (repeated), class (REQUIRED; reserved word, not renamed: the request is not proto-plus) -/
def mApplyShared : MethodS := ⟨"ApplyShared".toList, false, false,
  [⟨"note".toList, false, 1⟩, ⟨"spec".toList, true, 2⟩, ⟨"parent".toList, true, 3⟩, ⟨"filter_spec".toList, false, 4⟩,
   ⟨"kind".toList, false, 5⟩, ⟨"tags".toList, false, 6⟩, ⟨"class".toList, true, 8⟩], false⟩
example : mApplyShared.protoPlus = false := rfl
example : (mApplyShared.fields.map (·.name)).Nodup := by decide
example : legacyNames mApplyShared =
    ["spec".toList, "parent".toList, "class".toList, "note".toList, "filter_spec".toList, "kind".toList, "tags".toList] := by decide

/-- `GetBookRequest { view; oneof key { name [REQUIRED]; isbn }; parent [REQUIRED] }` and
`DeleteBookRequest { etag; optional name [REQUIRED] }`: the REQUIRED oneof member / proto3-optional field is listed first -/
example : legacyNames ⟨"GetBook".toList, false, true,
    [⟨"view".toList, false, 1⟩, ⟨"name".toList, true, 2⟩, ⟨"isbn".toList, false, 3⟩, ⟨"parent".toList, true, 4⟩], false⟩ =
    ["name".toList, "parent".toList, "view".toList, "isbn".toList] := by decide
example : legacyNames ⟨"DeleteBook".toList, false, true, [⟨"etag".toList, false, 1⟩, ⟨"name".toList, true, 2⟩], false⟩ =
    ["name".toList, "etag".toList] := by decide

/-- the legacy order of a message whose field numbers run AGAINST the declaration order is still the
declaration order (required first) -/
theorem legacy_order_ignores_numbers_example :
    legacyNames ⟨['G'], false, true,
      [⟨['f'], false, 4⟩, ⟨['n'], true, 3⟩, ⟨['c'], false, 1⟩, ⟨['p'], true, 2⟩], false⟩
      = [['n'], ['p'], ['f'], ['c']] := by decide

/-- **The fix-up table has an entry for every RPC name**: keyed by the snake-cased RPC name, carrying
the request fields of an RPC of exactly that name (the first one in `api.services` order). -/
theorem fixup_has_every_rpc_name (api : Api) (m : MethodS) (hm : m ∈ allMethods api) :
    ∃ m' ∈ allMethods api, m'.name = m.name ∧
      (toSnakeCase m.name, legacyNames m') ∈ fixupTable api := by
  have hs : m ∈ sortBy (fun m => lower m.name) (allMethods api) := (sortBy_perm _ _).mem_iff.mpr hm
  obtain ⟨y, hy, hk⟩ := uniqueBy_covers (fun m : MethodS => m.name) _ [] m hs (by simp)
  refine ⟨y, (sortBy_perm _ _).mem_iff.mp (uniqueBy_sub _ _ _ y hy), hk, ?_⟩
  simp only [fixupTable, List.mem_map]
  exact ⟨y, hy, by rw [hk]⟩

/-- RPCs of the same name (in different services) have the same request fields -/
def FixupUnambiguous (api : Api) : Prop :=
  ∀ m ∈ allMethods api, ∀ m' ∈ allMethods api, m.name = m'.name → legacyNames m = legacyNames m'

/-- **The fix-up table lists, for every RPC name, all request fields, required first and otherwise in
declaration order** (with `legacy_order`), when RPCs sharing a name share their request fields
(the table is keyed by RPC name alone; compare `fixup_shared_name_counterexample`). -/
theorem fixup_lists_request_fields (api : Api) (hu : FixupUnambiguous api) (m : MethodS) (hm : m ∈ allMethods api) :
    (toSnakeCase m.name, legacyNames m) ∈ fixupTable api := by
  obtain ⟨m', hm', hn, hin⟩ := fixup_has_every_rpc_name api m hm
  rwa [hu m' hm' m hm hn] at hin

/-- every row of the table comes from an RPC of the API -/
theorem fixup_only_rpcs (api : Api) (e : Str × List Str) (he : e ∈ fixupTable api) :
    ∃ m ∈ allMethods api, e = (toSnakeCase m.name, legacyNames m) := by
  simp only [fixupTable, List.mem_map] at he
  obtain ⟨m, hm, rfl⟩ := he
  exact ⟨m, (sortBy_perm _ _).mem_iff.mp (uniqueBy_sub _ _ _ m hm), rfl⟩

/-! ## Non-vacuity and the points the hypotheses exclude -/

section Examples

def fName : FieldS := ⟨"name".toList, true, 3⟩
def fFilter : FieldS := ⟨"filter".toList, false, 4⟩
def fClass : FieldS := ⟨"class".toList, false, 1⟩
def fParent : FieldS := ⟨"parent".toList, true, 2⟩

/-- request: filter = 4, name = 3 (REQUIRED), class = 1, parent = 2 (REQUIRED): numbers run against the declaration order -/
def mGet : MethodS := ⟨"GetBook".toList, false, true, [fFilter, fName, fClass, fParent], false⟩
def mImport : MethodS := ⟨"Import".toList, true, true, [⟨"from".toList, false, 2⟩, ⟨"in".toList, true, 1⟩], false⟩
def mReturn : MethodS := ⟨"Return".toList, false, true, [], false⟩
def sLibrary : ServiceS := ⟨"Library".toList, [mGet, mImport]⟩
def sArchive : ServiceS := ⟨"Archive".toList, [mReturn]⟩
def apiEx : Api := ⟨"acme.lib.v1".toList, ["acme".toList], "lib_v1".toList, [sLibrary, sArchive]⟩

example : WF apiEx := by decide
example : ClassNamesDistinct apiEx [sGrpc, sRest] := by decide
example : FixupUnambiguous apiEx := by unfold FixupUnambiguous; decide
example : (mGet.fields.map (pyFieldName mGet.protoPlus)).Nodup := by decide

/-- keyword-named + internal RPC, internal service, three client kinds -/
example : (gapicMetadata apiEx [sGrpc, sRest]).rows.filter (fun r => r.rpc = "Import".toList) =
    [⟨"Library".toList, sGrpc, "BaseLibraryClient".toList, "Import".toList, "_import_".toList⟩,
     ⟨"Library".toList, sGrpcAsync, "BaseLibraryAsyncClient".toList, "Import".toList, "_import_".toList⟩,
     ⟨"Library".toList, sRest, "BaseLibraryClient".toList, "Import".toList, "_import_".toList⟩] := by decide

example : (gapicMetadata apiEx [sRest]).rows.map (fun r => (r.kind, r.client, r.method)) =
    [(sRest, "ArchiveClient".toList, "return_".toList), (sRest, "BaseLibraryClient".toList, "get_book".toList),
     (sRest, "BaseLibraryClient".toList, "_import_".toList)] := by decide

example : (gapicMetadata apiEx [sGrpc]).libraryPackage = "acme.lib_v1".toList := by decide

/-- the same API as a library without a namespace part (proto package `mollusca.v1`) -/
def apiNoNs : Api := ⟨"mollusca.v1".toList, [], "mollusca_v1".toList, [sLibrary, sArchive]⟩
example : apiNoNs.ns = [] := rfl
example : (gapicMetadata apiNoNs [sGrpc, sRest]).libraryPackage = "mollusca_v1".toList := by decide
example : (gapicMetadata apiNoNs [sGrpc, sRest]).rows = (gapicMetadata apiEx [sGrpc, sRest]).rows := by decide

example : fixupTable apiEx =
    [("get_book".toList, ["name".toList, "parent".toList, "filter".toList, "class_".toList]),
     ("import".toList, ["in_".toList, "from_".toList]),
     ("return".toList, [])] := by decide

/-- a service that declares no RPC, FIRST by name, next to ordinary ones -/
def sHeartbeat : ServiceS := ⟨"Heartbeat".toList, []⟩
def apiEmptySvc : Api := ⟨"acme.lib.v1".toList, ["acme".toList], "lib_v1".toList, [sLibrary, sHeartbeat]⟩
example : WF apiEmptySvc := by decide
example : sGrpc ∈ [sGrpc, sRest] ∨ sRest ∈ [sGrpc, sRest] := by decide
/-- no `Row` mentions it … -/
example : ((gapicMetadata apiEmptySvc [sGrpc, sRest]).rows.filter fun r => r.service = "Heartbeat".toList) = [] := by decide
/-- … but it is listed, once per kind, with its client classes -/
example : (clientRows (gapicMetadata apiEmptySvc [sGrpc, sRest])).filter (fun r => r.1 = "Heartbeat".toList) =
    [("Heartbeat".toList, sGrpc, "HeartbeatClient".toList), ("Heartbeat".toList, sGrpcAsync, "HeartbeatAsyncClient".toList),
     ("Heartbeat".toList, sRest, "HeartbeatClient".toList)] := by decide
example : ((gapicMetadata apiEmptySvc [sRest]).services.map (·.name)) = ["Heartbeat".toList, "Library".toList] := by decide

def mGetBook : MethodS := ⟨"GetBook".toList, false, true, [fName], false⟩
def mGetbook : MethodS := ⟨"Getbook".toList, false, true, [⟨"isbn".toList, false, 7⟩], false⟩
def mGetBookIsbn : MethodS := ⟨"GetBook".toList, false, true, [⟨"isbn".toList, false, 7⟩], false⟩
def apiCase : Api := ⟨[], [], [], [⟨"Library".toList, [mGetBook, mGetbook]⟩]⟩
def apiShared : Api := ⟨[], [], [], [⟨"Library".toList, [mGetBook]⟩, ⟨"Archive".toList, [mGetBookIsbn]⟩]⟩
def mInsert : MethodS := ⟨"Insert".toList, false, true, [], true⟩
def apiExtOp : Api := ⟨[], [], [], [⟨"Addresses".toList, [mInsert]⟩]⟩
def mPing : MethodS := ⟨"Ping".toList, false, true, [], false⟩
def mPong : MethodS := ⟨"Pong".toList, false, true, [], false⟩
def apiClash : Api := ⟨[], [], [], [⟨"Foo".toList, [mPing]⟩, ⟨"FooAsync".toList, [mPong]⟩]⟩
def apiDup : Api := ⟨[], [], [], [⟨"Foo".toList, [mPing]⟩, ⟨"Foo".toList, [mPing]⟩]⟩

/-- regression for the C15 `fix:` commit (`unique(case_sensitive=True, …)`): RPCs `GetBook` and `Getbook`
(distinct names, distinct client methods `get_book` / `getbook`) both keep their row.
Before the repair only `get_book` was listed; corpus/C15/case_insensitive_unique.json. -/
theorem fixup_keeps_case_variants :
    WF apiCase ∧ FixupUnambiguous apiCase ∧ pyMethodName mGetBook ≠ pyMethodName mGetbook ∧
    fixupTable apiCase = [("get_book".toList, ["name".toList]), ("getbook".toList, ["isbn".toList])] := by
  unfold FixupUnambiguous; decide

/-- two services, one RPC name, different requests: one row, carrying the FIRST service's fields
(the hypothesis `FixupUnambiguous` of `fixup_has_every_rpc_name` is needed). -/
theorem fixup_shared_name_counterexample :
    WF apiShared ∧ ¬ FixupUnambiguous apiShared ∧
    fixupTable apiShared = [("get_book".toList, ["name".toList])] := by
  unfold FixupUnambiguous; decide

/-- an extended-operation RPC with the gRPC transports: the metadata maps `grpc-async` to
`<Service>AsyncClient.insert`, the asyncio client template emits only `insert_unary`. -/
theorem names_exist_extended_operation_async_counterexample :
    WF apiExtOp ∧ ClassNamesDistinct apiExtOp [sGrpc] ∧
    (⟨"Addresses".toList, sGrpcAsync, "AddressesAsyncClient".toList, "Insert".toList, "insert".toList⟩ : Row)
      ∈ (gapicMetadata apiExtOp [sGrpc]).rows ∧
    emittedClasses apiExtOp [sGrpc] =
      [("AddressesClient".toList, ["insert_unary".toList, "insert".toList]),
       ("AddressesAsyncClient".toList, ["insert_unary".toList])] := by decide

/-- services `Foo` and `FooAsync`: the class name `FooAsyncClient` is emitted twice
(`ClassNamesDistinct` fails), and only one of the two classes has `ping`.  Reproduced once on the real
generator, then classified as a hypothesis (not generated by the check). -/
theorem class_name_clash_counterexample :
    WF apiClash ∧ ¬ ClassNamesDistinct apiClash [sGrpc] ∧
    (⟨"Foo".toList, sGrpcAsync, "FooAsyncClient".toList, "Ping".toList, "ping".toList⟩ : Row)
      ∈ (gapicMetadata apiClash [sGrpc]).rows ∧
    ("FooAsyncClient".toList, ["pong".toList]) ∈ emittedClasses apiClash [sGrpc] := by decide

/-- without `WF` entries merge: two services of the same name (sub-packages) share one entry and the
method lists are appended -/
theorem duplicate_service_names_merge_counterexample :
    ¬ WF apiDup ∧ (gapicMetadata apiDup [sRest]).services =
      [⟨"Foo".toList, [⟨sRest, "FooClient".toList, [⟨"Ping".toList, ["ping".toList, "ping".toList]⟩]⟩]⟩] := by decide

end Examples

/-! ## The emitted transformer (`leave_Call`) and the `add-iam-methods` rows -/

section Aux

theorem zipPairs_take {α β : Type} : ∀ (p : List α) (l : List β), zipPairs p (l.take p.length) = zipPairs p l
  | [], l => by cases l <;> simp [zipPairs]
  | _ :: _, [] => by simp [zipPairs]
  | a :: p, b :: l => by simp [zipPairs, zipPairs_take p l]

theorem zipPairs_swap_map {α β γ : Type} (f : α → γ) : ∀ (l : List α) (c : List β),
    (zipPairs l c).map (fun x => (x.2, f x.1)) = zipPairs c (l.map f)
  | [], c => by cases c <;> simp [zipPairs]
  | _ :: _, [] => by simp [zipPairs]
  | a :: l, b :: c => by simp [zipPairs, zipPairs_swap_map f l c]

theorem dictGet_append (a b : List (Str × List Str)) (k : Str) :
    dictGet (a ++ b) k = (dictGet b k).or (dictGet a k) := by
  unfold dictGet
  rw [List.reverse_append, List.find?_append]
  cases List.find? (fun e => e.1 == k) b.reverse <;> simp

end Aux

/-- a method the table does not know is left alone -/
theorem fixCall_unknown (tbl : List (Str × List Str)) (key : Str) (args : List Arg) (h : dictGet tbl key = none) :
    fixCall tbl key args = .unchanged := by
  simp [fixCall, h]

/-- **An already fixed call is not fixed again**: any call carrying a `request=` keyword is unchanged;
in particular the transformer is idempotent (its output starts with `request=`). -/
theorem fixCall_already_fixed (tbl : List (Str × List Str)) (key : Str) (args : List Arg)
    (h : ∃ a ∈ args, a.kw = some "request".toList) :
    fixCall tbl key args = .unchanged := by
  obtain ⟨a, ha, hk⟩ := h
  unfold fixCall
  split
  · rfl
  · rw [partition_eq_filter]
    have : (args.filter (fun x => !(fun a : Arg => a.kw.isNone) x)).any (fun a => a.kw == some "request".toList) = true := by
      rw [List.any_eq_true]
      exact ⟨a, List.mem_filter.mpr ⟨ha, by simp [hk]⟩, by simp [hk]⟩
    simp only [this, if_true]

/-- **Positional arguments are bound to the table's names in order; surplus positional arguments become
`retry`, `timeout`, `metadata` in that order.**  With `fixup_lists_request_fields` and `legacy_order`:
positional argument `i` of an old-style call lands in request field `i` of "required first, then
declaration order". -/
theorem fixCall_positional (tbl : List (Str × List Str)) (key : Str) (params : List Str) (vals : List Nat)
    (h : dictGet tbl key = some params) :
    fixCall tbl key (vals.map fun v => ⟨none, v⟩) =
      .rewritten (zipPairs params vals) (zipPairs ctrlParams (vals.drop params.length)) := by
  have hf1 : (vals.map fun v => (⟨none, v⟩ : Arg)).filter (fun a => a.kw.isNone) = vals.map fun v => ⟨none, v⟩ := by
    apply List.filter_eq_self.mpr; intro a ha; obtain ⟨v, _, rfl⟩ := List.mem_map.mp ha; rfl
  have hf2 : (vals.map fun v => (⟨none, v⟩ : Arg)).filter (fun x => !(fun a : Arg => a.kw.isNone) x) = [] := by
    apply List.filter_eq_nil_iff.mpr; intro a ha; obtain ⟨v, _, rfl⟩ := List.mem_map.mp ha; simp
  unfold fixCall
  simp only [h, partition_eq_filter, hf1, hf2, List.any_nil, Bool.false_eq_true, if_false, List.filter_nil,
    List.append_nil, List.map_nil, List.nil_append]
  congr 1
  · rw [← List.map_take, List.map_map]
    have : ((fun a : Arg => a.val) ∘ fun v => (⟨none, v⟩ : Arg)) = id := rfl
    rw [this, List.map_id, zipPairs_take]
  · rw [← List.map_drop, zipPairs_swap_map (fun a : Arg => a.val), List.map_map]
    have : ((fun a : Arg => a.val) ∘ fun v => (⟨none, v⟩ : Arg)) = id := rfl
    rw [this, List.map_id]

/-- what the code does with KEYWORD arguments of an old-style call: `f(1, c=3)` for parameters (a, b, c)
becomes `request={'a': 1, 'b': 3}` — the keyword's own name is dropped, the value is bound to the next
free parameter.  (Outside C15's statement, which is about the table; reported as an observation.) -/
theorem fixCall_keyword_renamed_counterexample :
    fixCall [(['f'], [['a'], ['b'], ['c']])] ['f'] [⟨none, 1⟩, ⟨some ['c'], 3⟩] =
      .rewritten [(['a'], 1), (['b'], 3)] [] := by decide

example : fixCall [(['f'], [['a'], ['b']])] ['f'] ([1, 2, 3, 4].map fun v => ⟨none, v⟩) =
    .rewritten [(['a'], 1), (['b'], 2)] [("retry".toList, 3), ("timeout".toList, 4)] := by decide

example : fixCall [(['f'], [['a']])] ['f'] [⟨some "request".toList, 1⟩, ⟨some "retry".toList, 2⟩] = .unchanged := by decide

/-- without the option the table is the RPC table -/
theorem fixupTableOpt_off (api : Api) : fixupTableOpt api false = fixupTable api := by simp [fixupTableOpt]

/-- **`add-iam-methods` rows**: the three legacy IAM methods are looked up with their fixed parameter
lists (they come last in the dict literal, so they also win over an RPC row of the same key), and every
other key is looked up as without the option. -/
theorem fixupTableOpt_iam (api : Api) :
    dictGet (fixupTableOpt api true) "get_iam_policy".toList = some ["resource".toList, "options".toList] ∧
    dictGet (fixupTableOpt api true) "set_iam_policy".toList = some ["resource".toList, "policy".toList] ∧
    dictGet (fixupTableOpt api true) "test_iam_permissions".toList = some ["resource".toList, "permissions".toList] ∧
    ∀ k, dictGet iamRows k = none → dictGet (fixupTableOpt api true) k = dictGet (fixupTable api) k := by
  simp only [fixupTableOpt, if_true, dictGet_append]
  refine ⟨?_, ?_, ?_, ?_⟩
  · have : dictGet iamRows "get_iam_policy".toList = some ["resource".toList, "options".toList] := by decide
    rw [this]; rfl
  · have : dictGet iamRows "set_iam_policy".toList = some ["resource".toList, "policy".toList] := by decide
    rw [this]; rfl
  · have : dictGet iamRows "test_iam_permissions".toList = some ["resource".toList, "permissions".toList] := by decide
    rw [this]; rfl
  · intro k hk; simp [hk]

section Translated
open GapicModel.PyRt

/-- `toSnakeCase` IS the code's current `utils.to_snake_case` (translated by harness/pyfun2lean.py) -/
theorem toSnakeCase_is_translated (s : List Char) :
    GapicModel.Model.Metadata.toSnakeCase s = Pinned.Funcs.to_snake_case s := rfl

/-- `makePrivate` IS the code's current `utils.make_private` (translated by harness/pyfun2lean.py, re-bridged on every run) -/
theorem makePrivate_is_translated (s : List Char) :
    GapicModel.Model.Metadata.makePrivate s = Pinned.Funcs.make_private s := by
  cases s with
  | nil => rfl
  | cons c cs =>
    simp only [GapicModel.Model.Metadata.makePrivate, Pinned.Funcs.make_private, startswith, List.isPrefixOf]
    by_cases h : c = '_'
    · subst h; simp
    · have : ('_' == c) = false := by simp [beq_eq_false_iff_ne]; exact fun h' => h h'.symm
      simp [this]
      split
      · rename_i heq; simp at heq; exact absurd heq.1 h
      · rfl

end Translated

end GapicModel.Props.C15
