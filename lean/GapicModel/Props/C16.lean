import GapicModel.Model.Selective
import GapicModel.Pinned.Funcs
/-
C16 — selective generation keeps exactly the listed RPCs and a closed set of types (DESIGN §7.16).

`section Aux` is the theory of the traversal over an abstract successor function (soundness for
every fuel; completeness and closure when the fuel covers the not-yet-visited messages plus the
method depth).  The property theorems instantiate it with `Api.succ` under the decidable
well-formedness check `Api.wf`.
-/
namespace GapicModel.Props.C16
open GapicModel.Model.Selective

section Aux

theorem mem_ins {a x : Addr} {acc : List Addr} : x ∈ ins a acc ↔ x = a ∨ x ∈ acc := by
  unfold ins
  split
  · constructor
    · intro h; exact Or.inr h
    · rintro (rfl | h)
      · assumption
      · exact h
  · simp
theorem visit_leaf (succ) (f : Nat) (a : Addr) (acc : List Addr) :
    visit succ f (.leaf a) acc = ins a acc := by
  cases f <;> simp [visit]
theorem visit_msg_in (succ) (f : Nat) (a : Addr) (acc : List Addr) (h : a ∈ acc) :
    visit succ f (.msg a) acc = acc := by
  cases f <;> simp [visit, h]
theorem visit_msg_zero (succ) (a : Addr) (acc : List Addr) (h : a ∉ acc) :
    visit succ 0 (.msg a) acc = a :: acc := by
  simp [visit, h]
theorem visit_msg_succ (succ) (f : Nat) (a : Addr) (acc : List Addr) (h : a ∉ acc) :
    visit succ (f+1) (.msg a) acc = visitList succ f (succ a) (a :: acc) := by
  simp [visit, visitList, h]
theorem visit_meth_zero (succ) (a : Addr) (acc : List Addr) :
    visit succ 0 (.meth a) acc = ins a acc := by
  simp [visit]
theorem visit_meth_succ (succ) (f : Nat) (a : Addr) (acc : List Addr) :
    visit succ (f+1) (.meth a) acc = visitList succ f (succ a) (ins a acc) := by
  simp [visit, visitList]
theorem visitList_cons (succ) (f : Nat) (e : Edge) (es : List Edge) (acc : List Addr) :
    visitList succ f (e :: es) acc = visitList succ f es (visit succ f e acc) := rfl

/-- number of `univ` entries not yet in the set -/
def unv (univ acc : List Addr) : Nat := (univ.filter (fun x => !decide (x ∈ acc))).length

theorem unv_mono (univ : List Addr) {acc acc' : List Addr} (h : ∀ x ∈ acc, x ∈ acc') :
    unv univ acc' ≤ unv univ acc := by
  unfold unv
  induction univ with
  | nil => simp
  | cons u us ih =>
    simp only [List.filter_cons]
    by_cases h1 : u ∈ acc
    · have h2 : u ∈ acc' := h _ h1
      simp [h1, h2]; exact ih
    · by_cases h2 : u ∈ acc'
      · simp [h1, h2]; omega
      · simp [h1, h2]; exact ih

theorem unv_lt (univ : List Addr) {acc acc' : List Addr} {a : Addr} (hu : a ∈ univ) (ha : a ∉ acc)
    (ha' : a ∈ acc') (h : ∀ x ∈ acc, x ∈ acc') : unv univ acc' < unv univ acc := by
  induction univ with
  | nil => cases hu
  | cons u us ih =>
    have hm := unv_mono us h
    unfold unv at *
    simp only [List.filter_cons]
    by_cases hua : u = a
    · subst hua
      simp [ha, ha']; omega
    · have hu' : a ∈ us := by
        rcases List.mem_cons.mp hu with h | h
        · exact absurd h.symm hua
        · exact h
      have := ih hu'
      by_cases h1 : u ∈ acc
      · have h2 : u ∈ acc' := h _ h1
        simp [h1, h2]; exact this
      · by_cases h2 : u ∈ acc'
        · simp [h1, h2]; omega
        · simp [h1, h2]; exact this

theorem unv_le_length (univ acc : List Addr) : unv univ acc ≤ univ.length := by
  unfold unv; exact List.length_filter_le _ _

theorem visitList_mono_of (succ) (f : Nat) (hv : ∀ e acc x, x ∈ acc → x ∈ visit succ f e acc) :
    ∀ es acc x, x ∈ acc → x ∈ visitList succ f es acc := by
  intro es
  induction es with
  | nil => intro acc x h; exact h
  | cons e es ih => intro acc x h; rw [visitList_cons]; exact ih _ _ (hv _ _ _ h)

theorem visit_mono (succ) : ∀ (f : Nat) (e : Edge) (acc : List Addr) (x : Addr), x ∈ acc → x ∈ visit succ f e acc := by
  intro f
  induction f with
  | zero =>
    intro e acc x h
    cases e with
    | leaf a => rw [visit_leaf, mem_ins]; exact Or.inr h
    | msg a =>
      by_cases ha : a ∈ acc
      · rw [visit_msg_in _ _ _ _ ha]; exact h
      · rw [visit_msg_zero _ _ _ ha]; exact List.mem_cons_of_mem _ h
    | meth a => rw [visit_meth_zero, mem_ins]; exact Or.inr h
  | succ f ih =>
    intro e acc x h
    cases e with
    | leaf a => rw [visit_leaf, mem_ins]; exact Or.inr h
    | msg a =>
      by_cases ha : a ∈ acc
      · rw [visit_msg_in _ _ _ _ ha]; exact h
      · rw [visit_msg_succ _ _ _ _ ha]
        exact visitList_mono_of succ f ih _ _ _ (List.mem_cons_of_mem _ h)
    | meth a =>
      rw [visit_meth_succ]
      exact visitList_mono_of succ f ih _ _ _ (mem_ins.mpr (Or.inr h))

theorem visitList_mono (succ) (f : Nat) : ∀ es acc x, x ∈ acc → x ∈ visitList succ f es acc :=
  visitList_mono_of succ f (visit_mono succ f)

/-- what the completeness proof needs of an edge before it is visited -/
def Adm (succ : Addr → List Edge) (univ : List Addr) (rank : Addr → Nat) (e : Edge) : Prop :=
  match e with
  | .leaf a => succ a = []
  | .msg a => a ∈ univ
  | .meth a => ∀ e' ∈ succ a, rank e'.target < rank a

structure GraphOK (succ : Addr → List Edge) (univ : List Addr) (rank : Addr → Nat) : Prop where
  adm : ∀ b, ∀ e ∈ succ b, Adm succ univ rank e
  rankLe : ∀ b, ∀ e ∈ succ b, rank e.target ≤ rank b

/-- result of a visit: the target is in, and every node that is new is closed in the result -/
def Spec (succ : Addr → List Edge) (acc R : List Addr) : Prop :=
  ∀ x ∈ R, x ∉ acc → ∀ e' ∈ succ x, e'.target ∈ R

theorem visitList_spec_of (succ) (univ) (rank) (f : Nat)
    (hv : ∀ e acc, Adm succ univ rank e → unv univ acc + rank e.target + 1 ≤ f →
      e.target ∈ visit succ f e acc ∧ Spec succ acc (visit succ f e acc)) :
    ∀ es acc, (∀ e ∈ es, Adm succ univ rank e ∧ unv univ acc + rank e.target + 1 ≤ f) →
      (∀ e ∈ es, e.target ∈ visitList succ f es acc) ∧ Spec succ acc (visitList succ f es acc) := by
  intro es
  induction es with
  | nil => intro acc _; exact ⟨by simp, fun x hx hn => absurd hx hn⟩
  | cons e es ih =>
    intro acc h
    rw [visitList_cons]
    have he := h e (by simp)
    obtain ⟨h1, h2⟩ := hv e acc he.1 he.2
    have hmono1 : ∀ x ∈ acc, x ∈ visit succ f e acc := fun x hx => visit_mono succ f e acc x hx
    have hrest : ∀ e' ∈ es, Adm succ univ rank e' ∧ unv univ (visit succ f e acc) + rank e'.target + 1 ≤ f := by
      intro e' he'
      have := h e' (by simp [he'])
      refine ⟨this.1, ?_⟩
      have := unv_mono univ hmono1
      omega
    obtain ⟨h3, h4⟩ := ih _ hrest
    refine ⟨?_, ?_⟩
    · intro e' he'
      rcases List.mem_cons.mp he' with rfl | he'
      · exact visitList_mono succ f es _ _ h1
      · exact h3 _ he'
    · intro x hx hn e' he'
      by_cases hx1 : x ∈ visit succ f e acc
      · exact visitList_mono succ f es _ _ (h2 x hx1 hn e' he')
      · exact h4 x hx hx1 e' he'

theorem visit_spec (succ) (univ) (rank) (ok : GraphOK succ univ rank) :
    ∀ (f : Nat) (e : Edge) (acc : List Addr), Adm succ univ rank e → unv univ acc + rank e.target + 1 ≤ f →
      e.target ∈ visit succ f e acc ∧ Spec succ acc (visit succ f e acc) := by
  intro f
  induction f with
  | zero => intro e acc _ h; omega
  | succ f ih =>
    intro e acc hadm hf
    cases e with
    | leaf a =>
      rw [visit_leaf]
      refine ⟨mem_ins.mpr (Or.inl rfl), ?_⟩
      intro x hx hn e' he'
      rcases mem_ins.mp hx with rfl | hx
      · have : succ x = [] := hadm
        rw [this] at he'; cases he'
      · exact absurd hx hn
    | msg a =>
      by_cases ha : a ∈ acc
      · rw [visit_msg_in _ _ _ _ ha]
        exact ⟨ha, fun x hx hn => absurd hx hn⟩
      · rw [visit_msg_succ _ _ _ _ ha]
        have hau : a ∈ univ := hadm
        have hlt : unv univ (a :: acc) < unv univ acc :=
          unv_lt univ hau ha (by simp) (fun x hx => List.mem_cons_of_mem _ hx)
        have hes : ∀ e' ∈ succ a, Adm succ univ rank e' ∧ unv univ (a :: acc) + rank e'.target + 1 ≤ f := by
          intro e' he'
          refine ⟨ok.adm a e' he', ?_⟩
          have := ok.rankLe a e' he'
          simp only [Edge.target] at hf
          omega
        obtain ⟨h3, h4⟩ := visitList_spec_of succ univ rank f ih _ _ hes
        refine ⟨visitList_mono succ f _ _ _ (by simp [Edge.target]), ?_⟩
        intro x hx hn e' he'
        by_cases hxa : x = a
        · subst hxa; exact h3 e' he'
        · exact h4 x hx (by simp [hxa, hn]) e' he'
    | meth a =>
      rw [visit_meth_succ]
      have hes : ∀ e' ∈ succ a, Adm succ univ rank e' ∧ unv univ (ins a acc) + rank e'.target + 1 ≤ f := by
        intro e' he'
        refine ⟨ok.adm a e' he', ?_⟩
        have h1 : rank e'.target < rank a := hadm e' he'
        have h2 := unv_mono univ (acc := acc) (acc' := ins a acc) (fun x hx => mem_ins.mpr (Or.inr hx))
        simp only [Edge.target] at hf
        omega
      obtain ⟨h3, h4⟩ := visitList_spec_of succ univ rank f ih _ _ hes
      refine ⟨visitList_mono succ f _ _ _ (mem_ins.mpr (Or.inl rfl)), ?_⟩
      intro x hx hn e' he'
      by_cases hxa : x = a
      · subst hxa; exact h3 e' he'
      · exact h4 x hx (by rw [mem_ins]; simp [hxa, hn]) e' he'


/-- x reachable from edge e -/
inductive From (succ : Addr → List Edge) : Edge → Addr → Prop
  | here (e) : From succ e e.target
  | next {e e' x} : e.expands = true → e' ∈ succ e.target → From succ e' x → From succ e x

theorem visitList_sound_of (succ) (f : Nat)
    (hv : ∀ e acc x, x ∈ visit succ f e acc → x ∈ acc ∨ From succ e x) :
    ∀ es acc x, x ∈ visitList succ f es acc → x ∈ acc ∨ ∃ e ∈ es, From succ e x := by
  intro es
  induction es with
  | nil => intro acc x h; exact Or.inl h
  | cons e es ih =>
    intro acc x h
    rw [visitList_cons] at h
    rcases ih _ _ h with h1 | ⟨e', he', hf⟩
    · rcases hv _ _ _ h1 with h2 | h2
      · exact Or.inl h2
      · exact Or.inr ⟨e, by simp, h2⟩
    · exact Or.inr ⟨e', by simp [he'], hf⟩

theorem visit_sound (succ) : ∀ (f : Nat) (e : Edge) (acc : List Addr) (x : Addr),
    x ∈ visit succ f e acc → x ∈ acc ∨ From succ e x := by
  intro f
  induction f with
  | zero =>
    intro e acc x h
    cases e with
    | leaf a =>
      rw [visit_leaf, mem_ins] at h
      rcases h with rfl | h
      · exact Or.inr (From.here _)
      · exact Or.inl h
    | msg a =>
      by_cases ha : a ∈ acc
      · rw [visit_msg_in _ _ _ _ ha] at h; exact Or.inl h
      · rw [visit_msg_zero _ _ _ ha] at h
        rcases List.mem_cons.mp h with rfl | h
        · exact Or.inr (From.here _)
        · exact Or.inl h
    | meth a =>
      rw [visit_meth_zero, mem_ins] at h
      rcases h with rfl | h
      · exact Or.inr (From.here _)
      · exact Or.inl h
  | succ f ih =>
    intro e acc x h
    cases e with
    | leaf a =>
      rw [visit_leaf, mem_ins] at h
      rcases h with rfl | h
      · exact Or.inr (From.here _)
      · exact Or.inl h
    | msg a =>
      by_cases ha : a ∈ acc
      · rw [visit_msg_in _ _ _ _ ha] at h; exact Or.inl h
      · rw [visit_msg_succ _ _ _ _ ha] at h
        rcases visitList_sound_of succ f ih _ _ _ h with h1 | ⟨e', he', hf⟩
        · rcases List.mem_cons.mp h1 with rfl | h1
          · exact Or.inr (From.here _)
          · exact Or.inl h1
        · exact Or.inr (From.next rfl he' hf)
    | meth a =>
      rw [visit_meth_succ] at h
      rcases visitList_sound_of succ f ih _ _ _ h with h1 | ⟨e', he', hf⟩
      · rcases mem_ins.mp h1 with rfl | h1
        · exact Or.inr (From.here _)
        · exact Or.inl h1
      · exact Or.inr (From.next rfl he' hf)


/-- reachable from one of the root edges -/
def Reachable (succ : Addr → List Edge) (roots : List Edge) (x : Addr) : Prop :=
  ∃ e ∈ roots, From succ e x

theorem dfs_sound (succ) (f : Nat) (roots : List Edge) (x : Addr)
    (h : x ∈ visitList succ f roots []) : Reachable succ roots x := by
  rcases visitList_sound_of succ f (visit_sound succ f) roots [] x h with h | h
  · cases h
  · exact h

theorem dfs_closed (succ) (univ) (rank) (ok : GraphOK succ univ rank) (f : Nat) (roots : List Edge)
    (hr : ∀ e ∈ roots, Adm succ univ rank e ∧ univ.length + rank e.target + 1 ≤ f) :
    (∀ e ∈ roots, e.target ∈ visitList succ f roots []) ∧
    (∀ x ∈ visitList succ f roots [], ∀ e' ∈ succ x, e'.target ∈ visitList succ f roots []) := by
  have h := visitList_spec_of succ univ rank f (visit_spec succ univ rank ok f) roots []
    (fun e he => ⟨(hr e he).1, by have := (hr e he).2; have := unv_le_length univ []; omega⟩)
  exact ⟨h.1, fun x hx => h.2 x hx (by simp)⟩

theorem from_closed (succ) (S : Addr → Prop) (hS : ∀ a, S a → ∀ e ∈ succ a, S e.target) :
    ∀ e x, From succ e x → S e.target → S x := by
  intro e x h
  induction h with
  | here e => exact id
  | next _ he' _ ih => intro hs; exact ih (hS _ hs _ he')

theorem dfs_complete (succ) (univ) (rank) (ok : GraphOK succ univ rank) (f : Nat) (roots : List Edge)
    (hr : ∀ e ∈ roots, Adm succ univ rank e ∧ univ.length + rank e.target + 1 ≤ f) (x : Addr)
    (h : Reachable succ roots x) : x ∈ visitList succ f roots [] := by
  obtain ⟨hroots, hclosed⟩ := dfs_closed succ univ rank ok f roots hr
  obtain ⟨e, he, hf⟩ := h
  exact from_closed succ (· ∈ visitList succ f roots []) hclosed e x hf (hroots e he)

/-- the result is below every set that contains the roots and is closed under the edges -/
theorem dfs_least (succ) (f : Nat) (roots : List Edge) (S : Addr → Prop)
    (hroots : ∀ e ∈ roots, S e.target) (hS : ∀ a, S a → ∀ e ∈ succ a, S e.target) :
    ∀ x ∈ visitList succ f roots [], S x := by
  intro x hx
  obtain ⟨e, he, hf⟩ := dfs_sound succ f roots x hx
  exact from_closed succ S hS e x hf (hroots e he)

/-! #### from the decidable check `Api.wf` to the hypotheses above -/

theorem findMethodIn_some : ∀ (ps : List Proto) (a : Addr) (p : Proto) (m : Method),
    findMethodIn ps a = some (p, m) → p ∈ ps ∧ m ∈ p.methods ∧ m.addr = a := by
  intro ps
  induction ps with
  | nil => intro a p m h; simp [findMethodIn] at h
  | cons q qs ih =>
    intro a p m h
    unfold findMethodIn at h
    split at h
    · rename_i m' hm'
      simp only [Option.some.injEq, Prod.mk.injEq] at h
      obtain ⟨rfl, rfl⟩ := h
      refine ⟨by simp, List.mem_of_find?_eq_some hm', ?_⟩
      have := List.find?_some hm'
      simpa using this
    · obtain ⟨h1, h2, h3⟩ := ih a p m h
      exact ⟨by simp [h1], h2, h3⟩

theorem succ_mem_nodes (api : Api) (b : Addr) (e : Edge) (he : e ∈ api.succ b) : b ∈ api.nodes := by
  unfold Api.succ at he
  unfold Api.nodes
  split at he
  · rename_i m hm
    have h1 := List.mem_of_find?_eq_some hm
    have h2 := List.find?_some hm
    refine List.mem_append.mpr (Or.inl ?_)
    unfold Api.msgAddrs
    exact List.mem_map.mpr ⟨m, h1, by simpa using h2⟩
  · split at he
    · rename_i p m hm
      obtain ⟨h1, h2, h3⟩ := findMethodIn_some _ _ _ _ hm
      refine List.mem_append.mpr (Or.inr ?_)
      unfold Api.methodAddrs
      exact List.mem_flatMap.mpr ⟨p, h1, List.mem_map.mpr ⟨m, h2, h3⟩⟩
    · cases he

theorem adm_of_admissible (api : Api) (e : Edge) (h : api.admissible e = true) :
    Adm api.succ api.msgAddrs api.rank e := by
  cases e with
  | leaf a => simpa [Api.admissible, Adm] using h
  | msg a => simpa [Api.admissible, Adm] using h
  | meth a =>
    simp only [Api.admissible, List.all_eq_true, decide_eq_true_eq] at h
    exact h

theorem graphOK_of_wf (api : Api) (listed : List (List Char)) (h : api.wf listed = true) :
    GraphOK api.succ api.msgAddrs api.rank := by
  simp only [Api.wf, Bool.and_eq_true, List.all_eq_true, decide_eq_true_eq] at h
  constructor
  · intro b e he
    exact adm_of_admissible api e ((h.1 b (succ_mem_nodes api b e he) e he).1)
  · intro b e he
    exact (h.1 b (succ_mem_nodes api b e he) e he).2

theorem roots_of_wf (api : Api) (listed : List (List Char)) (h : api.wf listed = true) :
    ∀ e ∈ api.roots listed, Adm api.succ api.msgAddrs api.rank e ∧
      api.msgAddrs.length + api.rank e.target + 1 ≤ api.fuel := by
  simp only [Api.wf, Bool.and_eq_true, List.all_eq_true, decide_eq_true_eq] at h
  intro e he
  refine ⟨adm_of_admissible api e (h.2 e he).1, ?_⟩
  have := (h.2 e he).2
  simp only [Api.fuel, Api.msgAddrs, List.length_map]
  omega
theorem find_self : ∀ (l : List Method) (m : Method), (l.map (·.addr)).Nodup → m ∈ l →
    l.find? (fun x => x.addr == m.addr) = some m := by
  intro l
  induction l with
  | nil => intro m _ h; cases h
  | cons x xs ih =>
    intro m hn hm
    simp only [List.map_cons, List.nodup_cons] at hn
    rcases List.mem_cons.mp hm with rfl | hm
    · simp
    · have hne : x.addr ≠ m.addr := by
        intro h
        exact hn.1 (h ▸ List.mem_map.mpr ⟨m, hm, rfl⟩)
      simp [hne, ih m hn.2 hm]

theorem findMethodIn_self : ∀ (ps : List Proto) (p : Proto) (m : Method),
    (ps.flatMap fun p => p.methods.map (·.addr)).Nodup → p ∈ ps → m ∈ p.methods →
    findMethodIn ps m.addr = some (p, m) := by
  intro ps
  induction ps with
  | nil => intro p m _ h; cases h
  | cons q qs ih =>
    intro p m hn hp hm
    simp only [List.flatMap_cons, List.nodup_append] at hn
    obtain ⟨hq, hqs, hdis⟩ := hn
    unfold findMethodIn
    by_cases hmq : m ∈ q.methods
    · rw [find_self q.methods m hq hmq]
      rcases List.mem_cons.mp hp with rfl | hp'
      · rfl
      · exfalso
        exact hdis m.addr (List.mem_map.mpr ⟨m, hmq, rfl⟩) m.addr
          (List.mem_flatMap.mpr ⟨p, hp', List.mem_map.mpr ⟨m, hm, rfl⟩⟩) rfl
    · have hp' : p ∈ qs := by
        rcases List.mem_cons.mp hp with rfl | hp'
        · exact absurd hm hmq
        · exact hp'
      have hnone : q.methods.find? (fun x => x.addr == m.addr) = none := by
        rw [List.find?_eq_none]
        intro x hx hxa
        exact hdis x.addr (List.mem_map.mpr ⟨x, hx, rfl⟩) m.addr
          (List.mem_flatMap.mpr ⟨p, hp', List.mem_map.mpr ⟨m, hm, rfl⟩⟩) (by simpa using hxa)
      rw [hnone]
      exact ih p m hqs hp' hm

theorem succ_of_msg (api : Api) (a : Addr) (msg : Message) (h : api.findMsg a = some msg) :
    api.succ a = msgEdges api msg := by
  simp [Api.succ, h]

theorem findMsg_none_of_not_mem (api : Api) (a : Addr) (h : a ∉ api.msgAddrs) : api.findMsg a = none := by
  unfold Api.findMsg
  rw [List.find?_eq_none]
  intro m hm hma
  exact h (List.mem_map.mpr ⟨m, hm, by simpa using hma⟩)

theorem succ_of_method (api : Api) (listed : List (List Char)) (hA : api.wfAddrs listed = true)
    (p : Proto) (m : Method) (hp : p ∈ api.protos) (hm : m ∈ p.methods) :
    api.succ m.addr = methodEdges p m := by
  simp only [Api.wfAddrs, Bool.and_eq_true, decide_eq_true_eq, List.all_eq_true, Bool.not_eq_true',
    List.contains_eq_mem, decide_eq_false_iff_not] at hA
  obtain ⟨⟨⟨hnd, hdis⟩, _⟩, _⟩ := hA
  have hmem : m.addr ∈ api.methodAddrs :=
    List.mem_flatMap.mpr ⟨p, hp, List.mem_map.mpr ⟨m, hm, rfl⟩⟩
  have h1 : api.findMsg m.addr = none := findMsg_none_of_not_mem api m.addr (hdis _ hmem)
  have h2 : api.findMethod m.addr = some (p, m) := findMethodIn_self api.protos p m hnd hp hm
  simp [Api.succ, h1, h2]

theorem msgEdges_not_meth (api : Api) (m : Message) : ∀ e ∈ msgEdges api m, e.isMeth = false := by
  intro e he
  simp only [msgEdges, List.mem_append, List.mem_flatMap, List.mem_map] at he
  rcases he with (⟨f, _, hf⟩ | ⟨a, _, rfl⟩) | ⟨a, _, rfl⟩
  · simp only [fieldEdges, List.mem_append] at hf
    rcases hf with (hf | hf) | hf
    · split at hf <;> simp at hf; subst hf; rfl
    · split at hf <;> simp at hf; subst hf; rfl
    · split at hf
      · split at hf <;> simp at hf; subst hf; rfl
      · cases hf
  · rfl
  · rfl

theorem mem_methods_of_service {p : Proto} {s : Service} {m : Method} (hs : s ∈ p.services)
    (hm : m ∈ s.methods) : m ∈ p.methods :=
  List.mem_flatMap.mpr ⟨s, hs, hm⟩

theorem root_leaf_mem (api : Api) (listed : List (List Char)) (p : Proto) (s : Service) (m : Method)
    (hp : p ∈ api.protos) (hs : s ∈ p.services) (hm : m ∈ s.methods) (hl : m.fqn ∈ listed) :
    Edge.leaf s.addr ∈ api.roots listed ∧ Edge.meth m.addr ∈ api.roots listed := by
  have : ∀ e, e ∈ [Edge.leaf s.addr, Edge.meth m.addr] → e ∈ api.roots listed := by
    intro e he
    refine List.mem_flatMap.mpr ⟨p, hp, List.mem_flatMap.mpr ⟨s, hs, ?_⟩⟩
    refine List.mem_flatMap.mpr ⟨m, hm, ?_⟩
    simp only [hl, if_true]
    exact he
  exact ⟨this _ (by simp), this _ (by simp)⟩

theorem mem_roots (api : Api) (listed : List (List Char)) (e : Edge) (he : e ∈ api.roots listed) :
    ∃ p ∈ api.protos, ∃ s ∈ p.services, ∃ m ∈ s.methods, m.fqn ∈ listed ∧
      (e = Edge.leaf s.addr ∨ e = Edge.meth m.addr) := by
  obtain ⟨p, hp, he⟩ := List.mem_flatMap.mp he
  obtain ⟨s, hs, he⟩ := List.mem_flatMap.mp he
  obtain ⟨m, hm, he⟩ := List.mem_flatMap.mp he
  by_cases hl : m.fqn ∈ listed
  · simp only [hl, if_true, List.mem_cons, List.not_mem_nil, or_false] at he
    exact ⟨p, hp, s, hs, m, hm, hl, he⟩
  · simp [hl] at he

end Aux

/-! ## The allow-list is exactly the reachability closure -/

/-- Everything on the allow-list is reachable from a listed method (for every fuel, no hypothesis). -/
theorem allowlist_sound (api : Api) (listed : List (List Char)) (a : Addr)
    (h : a ∈ allowlist api listed) : Reachable api.succ (api.roots listed) a :=
  dfs_sound api.succ api.fuel (api.roots listed) a h

/-- Everything reachable from a listed method is on the allow-list: the visited-guard loses nothing
and `Api.fuel` levels of recursion suffice. -/
theorem allowlist_complete (api : Api) (listed : List (List Char)) (hwf : api.wf listed = true)
    (a : Addr) (h : Reachable api.succ (api.roots listed) a) : a ∈ allowlist api listed :=
  dfs_complete api.succ api.msgAddrs api.rank (graphOK_of_wf api listed hwf) api.fuel (api.roots listed)
    (roots_of_wf api listed hwf) a h

theorem allowlist_iff (api : Api) (listed : List (List Char)) (hwf : api.wf listed = true) (a : Addr) :
    a ∈ allowlist api listed ↔ Reachable api.succ (api.roots listed) a :=
  ⟨allowlist_sound api listed a, allowlist_complete api listed hwf a⟩

/-- The allow-list contains the listed methods and their services and is closed under every edge
(field type, enum, resource reference, nested declaration, LRO and extended-operation types). -/
theorem allowlist_closed (api : Api) (listed : List (List Char)) (hwf : api.wf listed = true) :
    (∀ e ∈ api.roots listed, e.target ∈ allowlist api listed) ∧
    (∀ a ∈ allowlist api listed, ∀ e ∈ api.succ a, e.target ∈ allowlist api listed) :=
  dfs_closed api.succ api.msgAddrs api.rank (graphOK_of_wf api listed hwf) api.fuel (api.roots listed)
    (roots_of_wf api listed hwf)

/-- Minimality: the allow-list is contained in EVERY set of addresses that contains the listed
methods with their services and is closed under the edges (nested declarations are edges, so this is
minimality modulo "a kept message keeps what is declared inside it"). -/
theorem allowlist_least (api : Api) (listed : List (List Char)) (S : Addr → Prop)
    (hroots : ∀ e ∈ api.roots listed, S e.target) (hS : ∀ a, S a → ∀ e ∈ api.succ a, S e.target) :
    ∀ a ∈ allowlist api listed, S a :=
  dfs_least api.succ api.fuel (api.roots listed) S hroots hS

/-! ## Pruning -/

theorem pruneProto_some (al : List Addr) (p p' : Proto) (h : pruneProto al p = some p') :
    p'.name = p.name ∧
    p'.services = (p.services.filter (fun s => s.addr ∈ al)).map (pruneService al) ∧
    p'.messages = p.messages.filter (· ∈ al) ∧ p'.enums = p.enums.filter (· ∈ al) := by
  unfold pruneProto at h
  simp only at h
  split at h
  · cases h
  · cases h; exact ⟨rfl, rfl, rfl, rfl⟩

/-- Closed: in a pruned proto every type a kept method refers to (input, output, LRO response and
metadata, extended-operation service/polling method/request/operation) and every type a kept message
refers to (field types, enums, resource references, nested declarations) is on the allow-list … -/
theorem pruned_closed (api : Api) (listed : List (List Char)) (hwf : api.wf listed = true)
    (hA : api.wfAddrs listed = true) (p p' : Proto) (hp : p ∈ api.protos)
    (h : pruneProto (allowlist api listed) p = some p') :
    (∀ s' ∈ p'.services, ∀ m ∈ s'.methods, ∀ e ∈ methodEdges p m, e.target ∈ allowlist api listed) ∧
    (∀ a ∈ p'.messages, ∀ msg, api.findMsg a = some msg → ∀ e ∈ msgEdges api msg, e.target ∈ allowlist api listed) := by
  obtain ⟨_, hs, hm, _⟩ := pruneProto_some _ _ _ h
  obtain ⟨_, hcl⟩ := allowlist_closed api listed hwf
  constructor
  · intro s' hs' m hm' e he
    rw [hs] at hs'
    obtain ⟨s, hsf, rfl⟩ := List.mem_map.mp hs'
    have hs0 := (List.mem_filter.mp hsf).1
    simp only [pruneService, List.mem_filter, decide_eq_true_eq] at hm'
    have hsucc := succ_of_method api listed hA p m hp (mem_methods_of_service hs0 hm'.1)
    exact hcl m.addr hm'.2 e (hsucc ▸ he)
  · intro a ha msg hmsg e he
    rw [hm] at ha
    have ha' : a ∈ allowlist api listed := by simpa using (List.mem_filter.mp ha).2
    exact hcl a ha' e ((succ_of_msg api a msg hmsg) ▸ he)

/-- … and whatever is on the allow-list and declared in a proto to generate survives the pruning of
that proto (the proto is not dropped). -/
theorem pruned_keeps (al : List Addr) (p : Proto) (a : Addr) (ha : a ∈ al) :
    (a ∈ p.messages → ∃ p', pruneProto al p = some p' ∧ a ∈ p'.messages) ∧
    (a ∈ p.enums → ∃ p', pruneProto al p = some p' ∧ a ∈ p'.enums) ∧
    (∀ s ∈ p.services, s.addr = a → ∃ p', pruneProto al p = some p' ∧ pruneService al s ∈ p'.services) := by
  refine ⟨?_, ?_, ?_⟩
  · intro hm
    have hmem : a ∈ p.messages.filter (· ∈ al) := List.mem_filter.mpr ⟨hm, by simpa using ha⟩
    unfold pruneProto
    simp only
    split
    · rename_i hc
      simp only [Bool.and_eq_true, List.isEmpty_iff] at hc
      rw [hc.1.2] at hmem; cases hmem
    · exact ⟨_, rfl, hmem⟩
  · intro hm
    have hmem : a ∈ p.enums.filter (· ∈ al) := List.mem_filter.mpr ⟨hm, by simpa using ha⟩
    unfold pruneProto
    simp only
    split
    · rename_i hc
      simp only [Bool.and_eq_true, List.isEmpty_iff] at hc
      rw [hc.2] at hmem; cases hmem
    · exact ⟨_, rfl, hmem⟩
  · intro s hs hsa
    have hmem : pruneService al s ∈ (p.services.filter (fun s => s.addr ∈ al)).map (pruneService al) :=
      List.mem_map.mpr ⟨s, List.mem_filter.mpr ⟨hs, by simpa [hsa] using ha⟩, rfl⟩
    unfold pruneProto
    simp only
    split
    · rename_i hc
      simp only [Bool.and_eq_true, List.isEmpty_iff] at hc
      rw [hc.1.1] at hmem; cases hmem
    · exact ⟨_, rfl, hmem⟩

/-- Minimal: every service, method, message and enum left in a pruned proto is reachable from a
listed method. -/
theorem pruned_minimal (api : Api) (listed : List (List Char)) (p p' : Proto)
    (h : pruneProto (allowlist api listed) p = some p') :
    (∀ s' ∈ p'.services, Reachable api.succ (api.roots listed) s'.addr ∧
        ∀ m ∈ s'.methods, Reachable api.succ (api.roots listed) m.addr) ∧
    (∀ a ∈ p'.messages, Reachable api.succ (api.roots listed) a) ∧
    (∀ a ∈ p'.enums, Reachable api.succ (api.roots listed) a) := by
  obtain ⟨_, hs, hm, he⟩ := pruneProto_some _ _ _ h
  refine ⟨?_, ?_, ?_⟩
  · intro s' hs'
    rw [hs] at hs'
    obtain ⟨s, hsf, rfl⟩ := List.mem_map.mp hs'
    have := (List.mem_filter.mp hsf).2
    refine ⟨allowlist_sound api listed _ (by simpa [pruneService] using this), ?_⟩
    intro m hm'
    simp only [pruneService, List.mem_filter, decide_eq_true_eq] at hm'
    exact allowlist_sound api listed _ hm'.2
  · intro a ha
    rw [hm] at ha
    exact allowlist_sound api listed _ (by simpa using (List.mem_filter.mp ha).2)
  · intro a ha
    rw [he] at ha
    exact allowlist_sound api listed _ (by simpa using (List.mem_filter.mp ha).2)

/-- Pruning only removes: it never renames or adds a declaration. -/
theorem pruned_sub (al : List Addr) (p p' : Proto) (h : pruneProto al p = some p') :
    (∀ a ∈ p'.messages, a ∈ p.messages) ∧ (∀ a ∈ p'.enums, a ∈ p.enums) ∧
    (∀ s' ∈ p'.services, ∃ s ∈ p.services, s'.addr = s.addr ∧ s'.name = s.name ∧ ∀ m ∈ s'.methods, m ∈ s.methods) := by
  obtain ⟨_, hs, hm, he⟩ := pruneProto_some _ _ _ h
  refine ⟨fun a ha => (List.mem_filter.mp (hm ▸ ha)).1, fun a ha => (List.mem_filter.mp (he ▸ ha)).1, ?_⟩
  intro s' hs'
  rw [hs] at hs'
  obtain ⟨s, hsf, rfl⟩ := List.mem_map.mp hs'
  exact ⟨s, (List.mem_filter.mp hsf).1, rfl, rfl, fun m hm' => (List.mem_filter.mp hm').1⟩

/-! ## The classes the emitted `types` modules define -/

section Aux

theorem mem_msgEdges_nestedEnum (api : Api) (m : Message) (x : Addr) (h : x ∈ m.nestedEnums) :
    Edge.leaf x ∈ msgEdges api m := by
  simp only [msgEdges, List.mem_append, List.mem_map]
  exact Or.inl (Or.inr ⟨x, h, rfl⟩)

theorem mem_msgEdges_nestedMsg (api : Api) (m : Message) (x : Addr) (h : x ∈ m.nestedMsgs) :
    Edge.msg x ∈ msgEdges api m := by
  simp only [msgEdges, List.mem_append, List.mem_map]
  exact Or.inr ⟨x, h, rfl⟩

theorem declared_sub (api : Api) (S : Addr → Prop)
    (hS : ∀ a, S a → ∀ e ∈ api.succ a, S e.target) :
    ∀ (f : Nat) (a : Addr), S a → ∀ x ∈ declared api f a, S x := by
  intro f
  induction f with
  | zero => intro a ha x hx; simp [declared] at hx; exact hx ▸ ha
  | succ f ih =>
    intro a ha x hx
    unfold declared at hx
    split at hx
    · rename_i m hm
      have hsucc := succ_of_msg api a m hm
      rcases List.mem_cons.mp hx with rfl | hx
      · exact ha
      · rcases List.mem_append.mp hx with hx | hx
        · exact hS a ha (Edge.leaf x) (hsucc ▸ mem_msgEdges_nestedEnum api m x hx)
        · obtain ⟨c, hc, hxc⟩ := List.mem_flatMap.mp hx
          exact ih c (hS a ha (Edge.msg c) (hsucc ▸ mem_msgEdges_nestedMsg api m c hc)) x hxc
    · simp at hx; exact hx ▸ ha

end Aux

/-- Nothing unreachable is emitted: every class the `types` module of a pruned proto defines (the
top-level kept declarations and everything declared inside them) is on the allow-list. -/
theorem emitted_sub_allowlist (api : Api) (listed : List (List Char)) (hwf : api.wf listed = true)
    (p p' : Proto) (h : pruneProto (allowlist api listed) p = some p') :
    ∀ a ∈ p'.emitted api, a ∈ allowlist api listed := by
  obtain ⟨_, _, hm, he⟩ := pruneProto_some _ _ _ h
  obtain ⟨_, hcl⟩ := allowlist_closed api listed hwf
  intro a ha
  simp only [Proto.emitted, List.mem_append, List.mem_flatMap] at ha
  rcases ha with ⟨t, ht, hat⟩ | ha
  · have ht' : t ∈ allowlist api listed := by
      have := (List.mem_filter.mp ht).1
      rw [hm] at this
      simpa using (List.mem_filter.mp this).2
    exact declared_sub api (· ∈ allowlist api listed) hcl _ t ht' a hat
  · have := (List.mem_filter.mp ha).1
    rw [he] at this
    simpa using (List.mem_filter.mp this).2

/-- A kept top-level message is emitted together with everything declared directly inside it. -/
theorem top_message_emitted_with_children (api : Api) (p' : Proto) (m : Message)
    (hm : api.findMsg m.addr = some m) (ht : m.addr ∈ p'.topMessages api) :
    m.addr ∈ p'.emitted api ∧ (∀ c ∈ m.nestedMsgs, c ∈ p'.emitted api) ∧ (∀ c ∈ m.nestedEnums, c ∈ p'.emitted api) := by
  have hlen : ∃ n, api.msgs.length = n + 1 := by
    cases hl : api.msgs with
    | nil => simp [Api.findMsg, hl] at hm
    | cons x xs => exact ⟨xs.length, by simp⟩
  obtain ⟨n, hn⟩ := hlen
  have hd : declared api api.msgs.length m.addr = m.addr :: (m.nestedEnums ++ m.nestedMsgs.flatMap (declared api n)) := by
    rw [hn]; simp [declared, hm]
  have hin : ∀ x ∈ declared api api.msgs.length m.addr, x ∈ p'.emitted api := by
    intro x hx
    simp only [Proto.emitted, List.mem_append, List.mem_flatMap]
    exact Or.inl ⟨m.addr, ht, hx⟩
  refine ⟨hin _ (by rw [hd]; simp), ?_, ?_⟩
  · intro c hc
    apply hin
    rw [hd]
    refine List.mem_cons_of_mem _ (List.mem_append.mpr (Or.inr (List.mem_flatMap.mpr ⟨c, hc, ?_⟩)))
    cases n with
    | zero => simp [declared]
    | succ k => unfold declared; split <;> simp
  · intro c hc
    apply hin
    rw [hd]
    exact List.mem_cons_of_mem _ (List.mem_append.mpr (Or.inl hc))

/-! ## Exactly the listed RPCs (plus the polling method of an extended operation) -/

/-- the methods the statement obliges the library to keep: the listed ones, and the polling method
that the extended-operation annotation of a needed method points to -/
inductive Needed (api : Api) (listed : List (List Char)) : Addr → Prop
  | listed {p s m} : p ∈ api.protos → s ∈ p.services → m ∈ s.methods → m.fqn ∈ listed → Needed api listed m.addr
  | polling {p m a} : p ∈ api.protos → m ∈ p.methods → Needed api listed m.addr →
      Edge.meth a ∈ methodEdges p m → Needed api listed a

theorem needed_kept (api : Api) (listed : List (List Char)) (hwf : api.wf listed = true)
    (hA : api.wfAddrs listed = true) (a : Addr) (h : Needed api listed a) : a ∈ allowlist api listed := by
  obtain ⟨hroots, hcl⟩ := allowlist_closed api listed hwf
  induction h with
  | listed hp hs hm hl => exact hroots _ (root_leaf_mem api listed _ _ _ hp hs hm hl).2
  | polling hp hm _ he ih =>
    have := hcl _ ih _ ((succ_of_method api listed hA _ _ hp hm) ▸ he)
    exact this

theorem kept_method_needed (api : Api) (listed : List (List Char)) (hA : api.wfAddrs listed = true) :
    ∀ a ∈ allowlist api listed, a ∈ api.methodAddrs → Needed api listed a := by
  simp only [Api.wfAddrs, Bool.and_eq_true, decide_eq_true_eq, List.all_eq_true, Bool.or_eq_true,
    Bool.not_eq_true', List.contains_eq_mem, decide_eq_false_iff_not] at hA
  obtain ⟨⟨⟨hnd, hdis⟩, hedges⟩, hroots⟩ := hA
  apply allowlist_least api listed (fun a => a ∈ api.methodAddrs → Needed api listed a)
  · intro e he hmem
    obtain ⟨p, hp, s, hs, m, hm, hl, hor⟩ := mem_roots api listed e he
    rcases hroots e he with h1 | h1
    · rcases hor with rfl | rfl
      · cases h1
      · exact Needed.listed hp hs hm hl
    · exact absurd hmem h1
  · intro a ha e he hmem
    rcases hedges a (succ_mem_nodes api a e he) e he with h1 | h1
    · -- a method edge: `a` is a method wrapper
      unfold Api.succ at he
      split at he
      · rename_i msg _
        have := msgEdges_not_meth api msg e he
        rw [h1] at this; cases this
      · split at he
        · rename_i p m hfm
          obtain ⟨hp, hm, hma⟩ := findMethodIn_some _ _ _ _ hfm
          have hamem : a ∈ api.methodAddrs :=
            List.mem_flatMap.mpr ⟨p, hp, List.mem_map.mpr ⟨m, hm, hma⟩⟩
          cases e with
          | leaf _ => cases h1
          | msg _ => cases h1
          | meth x => exact Needed.polling hp hm (hma ▸ ha hamem) he
        · cases he
    · exact absurd hmem h1

/-- A method of a proto to generate is on the allow-list — hence survives pruning — exactly when it
is listed or is the polling method needed by a kept extended-operation method. -/
theorem exactly_listed_rpcs (api : Api) (listed : List (List Char)) (hwf : api.wf listed = true)
    (hA : api.wfAddrs listed = true) (p : Proto) (s : Service) (m : Method)
    (hp : p ∈ api.protos) (hs : s ∈ p.services) (hm : m ∈ s.methods) :
    m ∈ (pruneService (allowlist api listed) s).methods ↔ Needed api listed m.addr := by
  simp only [pruneService, List.mem_filter, decide_eq_true_eq, hm, true_and]
  constructor
  · intro h
    exact kept_method_needed api listed hA _ h
      (List.mem_flatMap.mpr ⟨p, hp, List.mem_map.mpr ⟨m, mem_methods_of_service hs hm, rfl⟩⟩)
  · exact needed_kept api listed hwf hA _

/-- A service with a listed method is kept, with that method. -/
theorem listed_service_kept (api : Api) (listed : List (List Char)) (hwf : api.wf listed = true)
    (p : Proto) (s : Service) (m : Method) (hp : p ∈ api.protos) (hs : s ∈ p.services)
    (hm : m ∈ s.methods) (hl : m.fqn ∈ listed) :
    ∃ p', pruneProto (allowlist api listed) p = some p' ∧
      pruneService (allowlist api listed) s ∈ p'.services ∧
      m ∈ (pruneService (allowlist api listed) s).methods := by
  obtain ⟨hroots, _⟩ := allowlist_closed api listed hwf
  obtain ⟨h1, h2⟩ := root_leaf_mem api listed p s m hp hs hm hl
  obtain ⟨p', hp', hs'⟩ := (pruned_keeps (allowlist api listed) p s.addr (hroots _ h1)).2.2 s hs rfl
  refine ⟨p', hp', hs', ?_⟩
  simp only [pruneService, List.mem_filter, decide_eq_true_eq]
  exact ⟨hm, hroots _ h2⟩

/-! ## Services: kept exactly with their needed methods -/

section Aux

/-- a method edge out of a method wrapper is the polling method of the resolved operation service,
and the service edge sits next to it -/
theorem meth_edge_inv (p : Proto) (m : Method) (a : Addr) (h : Edge.meth a ∈ methodEdges p m) :
    ∃ s ∈ p.services, ∃ pm ∈ s.methods, pm.addr = a ∧ Edge.leaf s.addr ∈ methodEdges p m := by
  unfold methodEdges at h ⊢
  simp only [List.mem_append] at h
  rcases h with (h | h) | h
  · split at h <;> simp at h
  · split at h
    · rename_i x hx
      unfold extEdges at h
      split at h
      · rename_i s hs
        have hsmem := List.mem_of_find?_eq_some hs
        simp only [List.mem_append, List.mem_cons, List.not_mem_nil, or_false] at h
        rcases h with (h | h) | h
        · cases h
        · split at h
          · rename_i pm hpm
            simp only [List.mem_cons, List.not_mem_nil, or_false, Edge.meth.injEq] at h
            refine ⟨s, hsmem, pm, List.mem_of_find?_eq_some hpm, h.symm, ?_⟩
            simp only [List.mem_append]
            refine Or.inl (Or.inr ?_)
            simp [extEdges, hs]
          · cases h
        · rcases h with h | h <;> cases h
      · cases h
    · cases h
  · simp at h

theorem mem_services {api : Api} {p : Proto} {s : Service} (hp : p ∈ api.protos) (hs : s ∈ p.services) :
    s ∈ api.services :=
  List.mem_flatMap.mpr ⟨p, hp, hs⟩

end Aux

/-- A needed method's service is on the allow-list, so the method really is in the pruned proto
(`exactly_listed_rpcs` speaks about the pruned service; this says the pruned service is there). -/
theorem needed_service_kept (api : Api) (listed : List (List Char)) (hwf : api.wf listed = true)
    (hA : api.wfAddrs listed = true) (hSv : api.wfServices = true) (a : Addr) (h : Needed api listed a) :
    ∀ p ∈ api.protos, ∀ s ∈ p.services, ∀ m ∈ s.methods, m.addr = a → s.addr ∈ allowlist api listed := by
  obtain ⟨hroots, hcl⟩ := allowlist_closed api listed hwf
  simp only [Api.wfServices, Bool.and_eq_true, List.all_eq_true, Bool.or_eq_true, bne_iff_ne, ne_eq,
    beq_iff_eq, decide_eq_true_eq, Bool.not_eq_true'] at hSv
  obtain ⟨⟨⟨_, _⟩, _⟩, huniq⟩ := hSv
  induction h with
  | @listed p0 s0 m0 hp0 hs0 hm0 hl =>
    intro p hp s hs m hm hma
    have h1 := (root_leaf_mem api listed p0 s0 m0 hp0 hs0 hm0 hl).1
    have := huniq s0 (mem_services hp0 hs0) m0 hm0 s (mem_services hp hs) m hm
    rcases this with h2 | h2
    · exact absurd hma h2
    · rw [h2]; exact hroots _ h1
  | @polling p0 m0 a hp0 hm0 hn he _ =>
    intro p hp s hs m hm hma
    obtain ⟨s1, hs1, pm, hpm, hpma, hleaf⟩ := meth_edge_inv p0 m0 a he
    have hm0al : m0.addr ∈ allowlist api listed := needed_kept api listed hwf hA _ hn
    have hs1al : s1.addr ∈ allowlist api listed :=
      hcl _ hm0al (Edge.leaf s1.addr) ((succ_of_method api listed hA p0 m0 hp0 hm0) ▸ hleaf)
    have := huniq s1 (mem_services hp0 hs1) pm hpm s (mem_services hp hs) m hm
    rcases this with h2 | h2
    · exact absurd (hma.trans hpma.symm) h2
    · rw [h2]; exact hs1al

/-- Conversely a service that is kept holds at least one needed — hence kept — method: services that
are empty after the filter are removed, and no empty client class is emitted. -/
theorem kept_service_nonempty (api : Api) (listed : List (List Char)) (hwf : api.wf listed = true)
    (hA : api.wfAddrs listed = true) (hSv : api.wfServices = true) (p : Proto) (s : Service)
    (hp : p ∈ api.protos) (hs : s ∈ p.services) (h : s.addr ∈ allowlist api listed) :
    ∃ m ∈ s.methods, Needed api listed m.addr ∧ m ∈ (pruneService (allowlist api listed) s).methods := by
  obtain ⟨hroots, hcl⟩ := allowlist_closed api listed hwf
  have hSv' := hSv
  simp only [Api.wfServices, Bool.and_eq_true, List.all_eq_true, Bool.or_eq_true, bne_iff_ne, ne_eq,
    beq_iff_eq, decide_eq_true_eq, Bool.not_eq_true', List.contains_eq_mem, decide_eq_false_iff_not] at hSv'
  obtain ⟨⟨⟨hinj, hdisj⟩, hext⟩, _⟩ := hSv'
  have key : ∀ a ∈ allowlist api listed,
      a ∈ allowlist api listed ∧ ∀ s2 ∈ api.services, s2.addr = a → ∃ m ∈ s2.methods, Needed api listed m.addr := by
    apply allowlist_least api listed
      (fun a => a ∈ allowlist api listed ∧ ∀ s2 ∈ api.services, s2.addr = a → ∃ m ∈ s2.methods, Needed api listed m.addr)
    · intro e he
      refine ⟨hroots e he, ?_⟩
      intro s2 hs2 hs2a
      obtain ⟨p1, hp1, s1, hs1, m1, hm1, hl, hor⟩ := mem_roots api listed e he
      rcases hor with rfl | rfl
      · rcases hinj s2 hs2 s1 (mem_services hp1 hs1) with h1 | h1
        · exact absurd hs2a h1
        · exact h1 ▸ ⟨m1, hm1, Needed.listed hp1 hs1 hm1 hl⟩
      · exfalso
        have hmem : s2.addr ∈ api.serviceAddrs := List.mem_map.mpr ⟨s2, hs2, rfl⟩
        exact hdisj _ hmem (hs2a ▸ List.mem_flatMap.mpr ⟨p1, hp1, List.mem_map.mpr ⟨m1, mem_methods_of_service hs1 hm1, rfl⟩⟩)
    · intro a ha e he
      refine ⟨hcl a ha.1 e he, ?_⟩
      intro s2 hs2 hs2a
      have hmem : e.target ∈ api.serviceAddrs := List.mem_map.mpr ⟨s2, hs2, hs2a⟩
      rcases hext a (succ_mem_nodes api a e he) e he with h1 | h1
      · exact absurd hmem h1
      · unfold extLeafOK at h1
        split at h1
        · cases h1
        · split at h1
          · rename_i p1 m1 hfm
            obtain ⟨hp1, hm1, hma⟩ := findMethodIn_some _ _ _ _ hfm
            split at h1
            · rename_i x hx
              split at h1
              · rename_i s1 hs1
                simp only [Bool.and_eq_true, beq_iff_eq, Option.isSome_iff_exists] at h1
                obtain ⟨hs1a, pm, hpm⟩ := h1
                have hs1mem := List.mem_of_find?_eq_some hs1
                have hamem : a ∈ api.methodAddrs :=
                  List.mem_flatMap.mpr ⟨p1, hp1, List.mem_map.mpr ⟨m1, hm1, hma⟩⟩
                have hn1 : Needed api listed m1.addr := hma ▸ kept_method_needed api listed hA a ha.1 hamem
                have hedge : Edge.meth pm.addr ∈ methodEdges p1 m1 := by
                  simp only [methodEdges, List.mem_append]
                  refine Or.inl (Or.inr ?_)
                  simp [hx, extEdges, hs1, hpm]
                have hnpm : Needed api listed pm.addr := Needed.polling hp1 hm1 hn1 hedge
                rcases hinj s2 hs2 s1 (mem_services hp1 hs1mem) with h2 | h2
                · exact absurd (hs2a.trans hs1a.symm) h2
                · exact h2 ▸ ⟨pm, List.mem_of_find?_eq_some hpm, hnpm⟩
              · cases h1
            · cases h1
          · cases h1
  obtain ⟨m, hm, hn⟩ := (key s.addr h).2 s (mem_services hp hs) rfl
  refine ⟨m, hm, hn, ?_⟩
  simp only [pruneService, List.mem_filter, decide_eq_true_eq]
  exact ⟨hm, needed_kept api listed hwf hA _ hn⟩

/-! ## The third pass: dependencies, internal marking, validation -/

/-- Protos of dependency packages are carried over unchanged and in place; every other proto of the
result comes from a proto to generate (same file name). -/
theorem dependencies_untouched (api : Api) (settings : List LibSettings) (pp pkg : List Char)
    (ps : List Proto) (h : thirdPass api settings pp pkg = .built ps) :
    ∃ ts, ps = api.deps ++ ts ∧ ∀ t ∈ ts, ∃ p ∈ api.protos, t.name = p.name := by
  unfold thirdPass at h
  simp only at h
  split at h
  · cases h
  · split at h
    · cases h
    · split at h
      · cases h
      · split at h
        · cases h
          refine ⟨_, rfl, ?_⟩
          intro t ht
          obtain ⟨p, hp, rfl⟩ := List.mem_map.mp ht
          exact ⟨p, hp, rfl⟩
        · cases h
          refine ⟨_, rfl, ?_⟩
          intro t ht
          obtain ⟨p, hp, hpt⟩ := List.mem_filterMap.mp ht
          exact ⟨p, hp, (pruneProto_some _ _ _ hpt).1⟩

/-- `with_internal_methods` changes nothing but the `is_internal` flag of unlisted methods. -/
theorem withInternal_eq (pub : List (List Char)) (m : Method) :
    m.withInternal pub = { m with internal := m.internal || !decide (m.fqn ∈ pub) } := by
  unfold Method.withInternal
  by_cases h : m.fqn ∈ pub <;> simp [h]

/-- With `generate_omitted_as_internal` nothing is omitted: same messages and enums, same services,
and every service has the same methods (addresses, names, request/response types) in the same order. -/
theorem internal_mode_omits_nothing (pub : List (List Char)) (p : Proto) :
    (p.withInternal pub).name = p.name ∧ (p.withInternal pub).messages = p.messages ∧
    (p.withInternal pub).enums = p.enums ∧
    (p.withInternal pub).services.map (fun s => (s.addr, s.name)) = p.services.map (fun s => (s.addr, s.name)) ∧
    ∀ s ∈ p.services,
      (s.withInternal pub).methods.map (fun m => (m.addr, m.name, m.fqn, m.input, m.output, m.lro, m.ext, m.polling))
        = s.methods.map (fun m => (m.addr, m.name, m.fqn, m.input, m.output, m.lro, m.ext, m.polling)) := by
  refine ⟨rfl, rfl, rfl, ?_, ?_⟩
  · simp [Proto.withInternal, Service.withInternal, List.map_map, Function.comp_def]
  · intro s _
    simp only [Service.withInternal, List.map_map]
    apply List.map_congr_left
    intro m _
    simp [withInternal_eq]

/-- Naming: an unlisted method gets a leading underscore (unless its name already has one); a listed
one keeps its name. -/
theorem internal_names (pub : List (List Char)) (m : Method) (hpub : m.internal = false)
    (hk : isKeyword m.name = false) :
    (m.fqn ∈ pub → (m.withInternal pub).clientMethodName = m.name) ∧
    (m.fqn ∉ pub → (∀ r, m.name ≠ '_' :: r) → (m.withInternal pub).clientMethodName = '_' :: m.name) := by
  constructor
  · intro h
    simp [Method.withInternal, h, Method.clientMethodName, hk, hpub]
  · intro h hn
    simp only [Method.withInternal, h, if_false, Method.clientMethodName, hk]
    simp only [Bool.false_eq_true, if_false, if_true]
    unfold makePrivate
    split
    · rename_i r heq; exact absurd heq (hn r)
    · rfl

/-- The client classes get the prefix `Base` exactly when some method of the service is internal … -/
theorem client_names (s : Service) :
    (s.isInternal = true → s.clientName = "Base".toList ++ s.name ++ "Client".toList ∧
        s.asyncClientName = "Base".toList ++ s.name ++ "AsyncClient".toList) ∧
    (s.isInternal = false → s.clientName = s.name ++ "Client".toList ∧
        s.asyncClientName = s.name ++ "AsyncClient".toList) := by
  constructor <;> intro h <;> simp [Service.clientName, Service.asyncClientName, h]

/-- Every python method the client emits for an INTERNAL (unlisted) RPC — the method itself and, for an extended-operation
RPC, its `_unary` twin — has a stem that starts with an underscore; so has the emitted name (`snake_case` keeps a leading
underscore).  This is the clause "unlisted RPCs get a leading underscore" for the whole surface of the RPC. -/
theorem internal_surface_private (m : Method) (h : m.internal = true) :
    ∀ p ∈ m.surfaceNames, p.1.head? = some '_' := by
  have hc : m.clientMethodName.head? = some '_' := by
    simp only [Method.clientMethodName, h, if_true]
    generalize (if isKeyword m.name = true then m.name ++ ['_'] else m.name) = n
    unfold makePrivate
    split <;> simp
  intro p hp
  simp only [Method.surfaceNames, List.mem_cons] at hp
  rcases hp with rfl | hp
  · exact hc
  · split at hp
    · simp only [List.mem_singleton] at hp; subst hp; exact hc
    · simp at hp

/-- the surface of a public (listed) RPC is named by the RPC's own name (keyword names get a trailing underscore) -/
theorem public_surface_names (m : Method) (h : m.internal = false) :
    ∀ p ∈ m.surfaceNames, p.1 = (if isKeyword m.name then m.name ++ ['_'] else m.name) := by
  intro p hp
  simp only [Method.surfaceNames, List.mem_cons] at hp
  rcases hp with rfl | hp
  · simp [Method.clientMethodName, h]
  · split at hp
    · simp only [List.mem_singleton] at hp; subst hp; simp [Method.clientMethodName, h]
    · simp at hp

/-- an extended-operation RPC has exactly two surfaces, an ordinary RPC one -/
theorem surface_count (m : Method) : m.surfaceNames.length = if m.ext.isSome then 2 else 1 := by
  unfold Method.surfaceNames; split <;> simp

/-- Link to the source: `Pinned.Funcs.service_client_name` / `service_async_client_name` are the Lean translations of
`gapic/schema/wrappers.py: Service.client_name / async_client_name` (harness/pyfun2lean.py; kept equal to the
current source by the bridge lemmas `Bridge.Funcs.service_client_name`, `…service_async_client_name`).  The model's
own functions ARE these translations, so `client_names`, `base_prefix_iff` and `internal_names` are about the code:
the prefix `Base` is added iff the service is internal, whatever the service's own name starts with. -/
theorem clientName_is_translated (s : Service) :
    s.clientName = Pinned.Funcs.service_client_name s.isInternal s.name ∧
    s.asyncClientName = Pinned.Funcs.service_async_client_name s.isInternal s.name := by
  constructor <;>
    simp [Service.clientName, Service.asyncClientName, Pinned.Funcs.service_client_name,
      Pinned.Funcs.service_async_client_name]

/-- `utils.make_private` of the model is the translation of `gapic/utils/code.py: make_private`. -/
theorem makePrivate_is_translated (n : List Char) : makePrivate n = Pinned.Funcs.make_private n := by
  unfold makePrivate Pinned.Funcs.make_private PyRt.startswith
  cases n with
  | nil => simp
  | cons c cs =>
    by_cases h : c = '_'
    · subst h; simp
    · simp [h]
      exact fun e => h e.symm

/-- a service whose name already starts with `Base` is prefixed again when it is internal (BaseBaselineClient) -/
example : (Pinned.Funcs.service_client_name true "Baseline".toList) = "BaseBaselineClient".toList ∧
    (Pinned.Funcs.service_async_client_name true "Base".toList) = "BaseBaseAsyncClient".toList ∧
    (Pinned.Funcs.service_client_name false "Baseline".toList) = "BaselineClient".toList := by decide

/-- … and after `with_internal_methods` that is: exactly when the service has an unlisted method
(or already had an internal one). -/
theorem base_prefix_iff (pub : List (List Char)) (s : Service) :
    (s.withInternal pub).isInternal = true ↔ ∃ m ∈ s.methods, m.internal = true ∨ m.fqn ∉ pub := by
  simp only [Service.isInternal, Service.withInternal, List.any_map, List.any_eq_true, Function.comp]
  constructor
  · rintro ⟨m, hm, h⟩
    refine ⟨m, hm, ?_⟩
    rw [withInternal_eq] at h
    simp only [Bool.or_eq_true, Bool.not_eq_true', decide_eq_false_iff_not] at h
    exact h
  · rintro ⟨m, hm, h⟩
    refine ⟨m, hm, ?_⟩
    rw [withInternal_eq]
    simp only [Bool.or_eq_true, Bool.not_eq_true', decide_eq_false_iff_not]
    exact h

section Aux

theorem dictSet_ne_nil {β} (d : List (List Char × β)) (k : List Char) (v : β) : dictSet d k v ≠ [] := by
  cases d with
  | nil => simp [dictSet]
  | cons x r =>
    obtain ⟨k', v'⟩ := x
    unfold dictSet
    split <;> simp

/-- what the code calls a bad entry of `selective_gapic_generation.methods` -/
def BadMethod (allMethods : List (List Char)) (version m : List Char) : Prop :=
  m ∉ allMethods ∨ (version ++ ['.']).isPrefixOf m = false

theorem methodErrors_fold_ne_nil (allMethods : List (List Char)) (version : List Char) :
    ∀ (ms : List (List Char)) (d : List (List Char × MethodErr)),
      (d ≠ [] ∨ ∃ m ∈ ms, BadMethod allMethods version m) →
      ms.foldl (fun d m =>
        if m ∉ allMethods then dictSet d m .missing
        else if !((version ++ ['.']).isPrefixOf m) then dictSet d m .mismatch
        else d) d ≠ [] := by
  intro ms
  induction ms with
  | nil =>
    intro d h
    rcases h with h | ⟨m, hm, _⟩
    · exact h
    · cases hm
  | cons m ms ih =>
    intro d h
    simp only [List.foldl_cons]
    apply ih
    by_cases hb : BadMethod allMethods version m
    · left
      rcases hb with hb | hb
      · simp only [hb, not_false_eq_true, if_true]; exact dictSet_ne_nil _ _ _
      · by_cases h1 : m ∉ allMethods
        · simp only [h1, not_false_eq_true, if_true]; exact dictSet_ne_nil _ _ _
        · simp only [h1, if_false, hb, Bool.not_false, if_true]; exact dictSet_ne_nil _ _ _
    · rcases h with h | ⟨m', hm', hb'⟩
      · left
        simp only [BadMethod, not_or, Decidable.not_not, Bool.not_eq_false] at hb
        simp [hb.1, hb.2, h]
      · rcases List.mem_cons.mp hm' with rfl | hm'
        · exact absurd hb' hb
        · exact Or.inr ⟨m', hm', hb'⟩

theorem validateLoop_ne_nil (allMethods : List (List Char)) :
    ∀ (ss : List LibSettings) (seen : List (List Char)) (errs : List (List Char × SettingsErr)),
      (errs ≠ [] ∨ ∃ s ∈ ss, ∃ m ∈ s.methods, BadMethod allMethods s.version m) →
      validateLoop allMethods ss seen errs ≠ [] := by
  intro ss
  induction ss with
  | nil =>
    intro seen errs h
    rcases h with h | ⟨s, hs, _⟩
    · simpa [validateLoop] using h
    · cases hs
  | cons s ss ih =>
    intro seen errs h
    unfold validateLoop
    split
    · exact ih _ _ (Or.inl (dictSet_ne_nil _ _ _))
    · apply ih
      by_cases hb : ∃ m ∈ s.methods, BadMethod allMethods s.version m
      · left
        have : methodErrors allMethods s.version s.methods ≠ [] :=
          methodErrors_fold_ne_nil allMethods s.version s.methods [] (Or.inr hb)
        simp only [List.isEmpty_iff, this, if_false]
        exact dictSet_ne_nil _ _ _
      · rcases h with h | ⟨s', hs', hb'⟩
        · left
          split
          · exact h
          · exact dictSet_ne_nil _ _ _
        · rcases List.mem_cons.mp hs' with rfl | hs'
          · exact absurd hb' hb
          · exact Or.inr ⟨s', hs', hb'⟩

theorem methodErrors_nil_of_good (allMethods : List (List Char)) (version : List Char) :
    ∀ (ms : List (List Char)), (∀ m ∈ ms, ¬ BadMethod allMethods version m) →
      methodErrors allMethods version ms = [] := by
  intro ms h
  unfold methodErrors
  induction ms with
  | nil => rfl
  | cons m ms ih =>
    have hm := h m (by simp)
    simp only [BadMethod, not_or, Decidable.not_not, Bool.not_eq_false] at hm
    simp only [List.foldl_cons, hm.1, not_true_eq_false, if_false, hm.2, Bool.not_true, Bool.false_eq_true]
    exact ih (fun m' hm' => h m' (by simp [hm']))

theorem validateLoop_nil_of_good (allMethods : List (List Char)) :
    ∀ (ss : List LibSettings) (seen : List (List Char)),
      (∀ s ∈ ss, s.version ∉ seen) → (ss.map (·.version)).Nodup →
      (∀ s ∈ ss, ∀ m ∈ s.methods, ¬ BadMethod allMethods s.version m) →
      validateLoop allMethods ss seen [] = [] := by
  intro ss
  induction ss with
  | nil => intro _ _ _ _; rfl
  | cons s ss ih =>
    intro seen hseen hnd hgood
    unfold validateLoop
    have h1 : s.version ∉ seen := hseen s (by simp)
    simp only [h1, if_false]
    rw [methodErrors_nil_of_good allMethods s.version s.methods (hgood s (by simp))]
    simp only [List.isEmpty_nil, if_true]
    simp only [List.map_cons, List.nodup_cons] at hnd
    apply ih
    · intro s' hs' hmem
      rcases List.mem_cons.mp hmem with h | h
      · exact hnd.1 (h ▸ List.mem_map.mpr ⟨s', hs', rfl⟩)
      · exact hseen s' (by simp [hs']) h
    · exact hnd.2
    · intro s' hs'; exact hgood s' (by simp [hs'])

end Aux

/-- Listing a method that does not exist in the API to generate, or one whose name does not start
with the version of its settings entry FOLLOWED BY A DOT (whole package segments, `fix:` a25ff42),
makes `API.build` raise `ClientLibrarySettingsError` — whatever else the service YAML says and for
whichever package the library is built. -/
theorem unknown_or_wrong_version_rejected (api : Api) (settings : List LibSettings) (pp pkg : List Char)
    (s : LibSettings) (m : List Char) (hs : s ∈ settings) (hm : m ∈ s.methods)
    (hbad : m ∉ api.allMethods ∨ (s.version ++ ['.']).isPrefixOf m = false) :
    ∃ errs, errs ≠ [] ∧ thirdPass api settings pp pkg = .rejected errs := by
  have hne : validateSettings api.allMethods settings ≠ [] :=
    validateLoop_ne_nil api.allMethods settings [] [] (Or.inr ⟨s, hs, m, hm, hbad⟩)
  refine ⟨_, hne, ?_⟩
  unfold thirdPass
  simp [hne]

/-- Conversely nothing else is rejected: distinct versions whose methods all exist and carry the
version plus a dot as a prefix pass validation. -/
theorem valid_settings_accepted (allMethods : List (List Char)) (settings : List LibSettings)
    (hnd : (settings.map (·.version)).Nodup)
    (hgood : ∀ s ∈ settings, ∀ m ∈ s.methods, m ∈ allMethods ∧ (s.version ++ ['.']).isPrefixOf m = true) :
    validateSettings allMethods settings = [] := by
  apply validateLoop_nil_of_good allMethods settings [] (by simp) hnd
  intro s hs m hm hb
  obtain ⟨h1, h2⟩ := hgood s hs m hm
  rcases hb with hb | hb
  · exact hb h1
  · rw [h2] at hb; cases hb

/-- ORDER-INDEPENDENT: the allow-list of one settings entry yields errors iff SOME entry of it is invalid (does not exist,
or does not carry the version plus a dot as a prefix) — wherever that entry stands, in particular before a valid last one. -/
theorem methodErrors_ne_nil_iff (allMethods : List (List Char)) (version : List Char) (ms : List (List Char)) :
    methodErrors allMethods version ms ≠ [] ↔ ∃ m ∈ ms, BadMethod allMethods version m := by
  constructor
  · intro h
    apply Classical.byContradiction
    intro hn
    exact h (methodErrors_nil_of_good allMethods version ms (fun m hm hb => hn ⟨m, hm, hb⟩))
  · intro h
    exact methodErrors_fold_ne_nil allMethods version ms [] (Or.inr h)

/-- The whole validation, for settings with distinct versions: rejected iff SOME listed method of SOME entry is invalid. -/
theorem library_settings_rejected_iff_any_invalid (allMethods : List (List Char)) (settings : List LibSettings)
    (hnd : (settings.map (·.version)).Nodup) :
    validateSettings allMethods settings ≠ [] ↔
      ∃ s ∈ settings, ∃ m ∈ s.methods, (m ∉ allMethods ∨ (s.version ++ ['.']).isPrefixOf m = false) := by
  constructor
  · intro h
    apply Classical.byContradiction
    intro hn
    apply h
    apply validateLoop_nil_of_good allMethods settings [] (by simp) hnd
    intro s hs m hm hb
    exact hn ⟨s, hs, m, hm, hb⟩
  · intro h
    exact validateLoop_ne_nil allMethods settings [] [] (Or.inr h)

/-- Permuting the entries of the allow-list (and the settings entries themselves) does not change the verdict. -/
theorem library_settings_rejected_perm (allMethods : List (List Char)) (s1 s2 : List LibSettings)
    (hnd : (s1.map (·.version)).Nodup) (hp : s1.Perm s2) :
    (validateSettings allMethods s1 ≠ [] ↔ validateSettings allMethods s2 ≠ []) := by
  have hnd2 : (s2.map (·.version)).Nodup := (hp.map (·.version)).nodup_iff.mp hnd
  rw [library_settings_rejected_iff_any_invalid allMethods s1 hnd, library_settings_rejected_iff_any_invalid allMethods s2 hnd2]
  constructor
  · rintro ⟨s, hs, h⟩; exact ⟨s, hp.mem_iff.mp hs, h⟩
  · rintro ⟨s, hs, h⟩; exact ⟨s, hp.mem_iff.mpr hs, h⟩

theorem methodErrors_perm (allMethods : List (List Char)) (version : List Char) (m1 m2 : List (List Char))
    (hp : m1.Perm m2) :
    (methodErrors allMethods version m1 ≠ [] ↔ methodErrors allMethods version m2 ≠ []) := by
  rw [methodErrors_ne_nil_iff, methodErrors_ne_nil_iff]
  constructor
  · rintro ⟨m, hm, h⟩; exact ⟨m, hp.mem_iff.mp hm, h⟩
  · rintro ⟨m, hm, h⟩; exact ⟨m, hp.mem_iff.mpr hm, h⟩

/-- the lists of the round-11 change: an unknown method before a valid last one is rejected, like the other order -/
example : validateSettings ["p.v1.Lib.Get".toList] [⟨"p.v1".toList, ["p.v1.Lib.Purge".toList, "p.v1.Lib.Get".toList], false⟩] ≠ [] ∧
    validateSettings ["p.v1.Lib.Get".toList] [⟨"p.v1".toList, ["p.v1.Lib.Get".toList, "p.v1.Lib.Purge".toList], false⟩] ≠ [] ∧
    validateSettings ["p.v1.Lib.Get".toList] [⟨"p.v1".toList, ["p.v1.Arc.Get".toList, "p.v1.Lib.Purge".toList, "p.v1.Lib.Get".toList], true⟩] ≠ [] := by
  decide

/-- A version listed twice is rejected as well. -/
theorem duplicate_version_rejected (allMethods : List (List Char)) (s1 s2 : LibSettings)
    (h : s1.version = s2.version) : validateSettings allMethods [s1, s2] ≠ [] := by
  unfold validateSettings validateLoop
  simp only [List.not_mem_nil, if_false]
  unfold validateLoop
  simp only [h, List.mem_cons, true_or, if_true]
  unfold validateLoop
  exact dictSet_ne_nil _ _ _

/-- With the settings accepted, the methods list non-empty and `generate_omitted_as_internal` unset,
the new `all_protos` are the dependencies followed by the pruned protos (dropped ones removed). -/
theorem thirdPass_prunes (api : Api) (settings : List LibSettings) (pp pkg : List Char) (s : LibSettings)
    (hv : validateSettings api.allMethods settings = []) (hl : lookupSettings settings pp pkg = some s)
    (hm : s.methods ≠ []) (hi : s.internal = false) :
    thirdPass api settings pp pkg =
      .built (api.deps ++ api.protos.filterMap (pruneProto (allowlist api s.methods))) := by
  unfold thirdPass
  simp [hv, hl, List.isEmpty_iff, hm, hi]

theorem thirdPass_internal (api : Api) (settings : List LibSettings) (pp pkg : List Char) (s : LibSettings)
    (hv : validateSettings api.allMethods settings = []) (hl : lookupSettings settings pp pkg = some s)
    (hm : s.methods ≠ []) (hi : s.internal = true) :
    thirdPass api settings pp pkg = .built (api.deps ++ api.protos.map (Proto.withInternal s.methods)) := by
  unfold thirdPass
  simp [hv, hl, List.isEmpty_iff, hm, hi]

/-! ## Non-vacuity: a concrete API meeting every hypothesis used above

`exApi`: file `lib` with services `Lib` (Get, Other, Insert — an extended operation polled through
`Ops`) and `Ops` (Poll — the polling method, Wait); messages 10 GetReq (field of nested type 11
`Outer.Inner`, enum 20 `Outer.Kind`), 11 Outer.Inner, 12 Outer (declares 11 and the enums 20, 21), 13 Resp (resource
reference to 14), 14 Thing (recursive), 15 OtherReq (field 16), 16 Unused, 17 Operation, 18 PollReq,
19 InsertReq; a dependency file with message 50. -/

def exMsgs : List Message := [
  ⟨10, [⟨some 11, none, none⟩, ⟨none, some 20, none⟩], [], []⟩,
  ⟨11, [], [], []⟩,
  ⟨12, [], [20, 21], [11]⟩,
  ⟨13, [⟨none, none, some "r/T".toList⟩, ⟨some 50, none, none⟩], [], []⟩,
  ⟨14, [⟨some 14, none, none⟩], [], []⟩,
  ⟨15, [⟨some 16, none, none⟩], [], []⟩,
  ⟨16, [], [], []⟩, ⟨17, [], [], []⟩, ⟨18, [], [], []⟩, ⟨19, [⟨some 14, none, none⟩], [], []⟩,
  ⟨50, [], [], []⟩]

def exGet : Method := { addr := 30, name := "Get".toList, fqn := "p.Lib.Get".toList, input := 10, output := 13, lro := none, ext := none, polling := false }
def exOther : Method := { addr := 31, name := "Other".toList, fqn := "p.Lib.Other".toList, input := 15, output := 13, lro := some (14, 16), ext := none, polling := false }
def exInsert : Method := { addr := 32, name := "Insert".toList, fqn := "p.Lib.Insert".toList, input := 19, output := 17, lro := none,
                           ext := some ⟨"Ops".toList, 18, 17⟩, polling := false }
def exPoll : Method := { addr := 33, name := "Poll".toList, fqn := "p.Ops.Poll".toList, input := 18, output := 17, lro := none, ext := none, polling := true }
def exWait : Method := { addr := 34, name := "Wait".toList, fqn := "p.Ops.Wait".toList, input := 18, output := 17, lro := none, ext := none, polling := false }
def exLibSvc : Service := ⟨40, "Lib".toList, [exGet, exOther, exInsert]⟩
def exOpsSvc : Service := ⟨41, "Ops".toList, [exPoll, exWait]⟩
def exLib : Proto :=
  { name := "lib".toList, services := [exLibSvc, exOpsSvc],
    messages := [10, 11, 12, 13, 14, 15, 16, 17, 18, 19], enums := [20, 21] }

def exDep : Proto := { name := "dep".toList, services := [], messages := [50], enums := [] }

def exApi : Api := { protos := [exLib], deps := [exDep], msgs := exMsgs, resources := [("r/T".toList, 14)] }

def exListed : List (List Char) := ["p.Lib.Get".toList]
def exListedExt : List (List Char) := ["p.Lib.Insert".toList]

example : exApi.wf exListed = true ∧ exApi.wfAddrs exListed = true ∧ exApi.wfServices = true := by decide
example : exApi.wf exListedExt = true ∧ exApi.wfAddrs exListedExt = true := by decide
/-- listed Get: its service, request (with the nested type and the enum), response, the resource
message behind the reference (recursive), the dependency type — and nothing else -/
example : allowlist exApi exListed = [50, 14, 13, 20, 11, 10, 30, 40] := by decide
/-- listed Insert: the operation service and its polling method come along, `Wait` does not -/
example : allowlist exApi exListedExt = [14, 19, 17, 18, 33, 41, 32, 40] := by decide
/-- the operation service is kept with exactly its polling method (`kept_service_nonempty`, `needed_service_kept`) -/
example : exOpsSvc.addr ∈ allowlist exApi exListedExt ∧
    (pruneService (allowlist exApi exListedExt) exOpsSvc).methods = [exPoll] := by decide
example : Needed exApi exListedExt 33 :=
  Needed.polling (p := exLib) (m := exInsert) (by decide) (by decide)
    (Needed.listed (p := exLib) (s := exLibSvc) (m := exInsert) (by decide) (by decide) (by decide) (by decide)) (by decide)
example : pruneProto (allowlist exApi exListed) exLib =
    some { exLib with services := [{ exLibSvc with methods := [exGet] }], messages := [10, 11, 13, 14], enums := [20] } := by decide
example : pruneProto [] exLib = none := by decide
example : thirdPass exApi [⟨"p".toList, exListed, false⟩] "p".toList "p".toList =
    .built [exDep, { exLib with services := [{ exLibSvc with methods := [exGet] }],
                                messages := [10, 11, 13, 14], enums := [20] }] := by decide
example : ((exLib.withInternal exListed).services.map fun s => (s.clientName, s.methods.map (·.clientMethodName)))
    = [("BaseLibClient".toList, ["Get".toList, "_Other".toList, "_Insert".toList]),
       ("BaseOpsClient".toList, ["_Poll".toList, "_Wait".toList])] := by decide
example : ((exLib.withInternal ["p.Lib.Get".toList, "p.Lib.Other".toList, "p.Lib.Insert".toList]).services.map (·.clientName))
    = ["LibClient".toList, "BaseOpsClient".toList] := by decide
example : isKeyword "Import".toList = true ∧ isKeyword "Get".toList = false := by decide
example : validateSettings exApi.allMethods [⟨"p".toList, ["p.Lib.Nope".toList], false⟩]
    = [("p".toList, .selective [("p.Lib.Nope".toList, .missing)])] := by decide
example : validateSettings exApi.allMethods [⟨"q".toList, ["p.Lib.Get".toList], false⟩]
    = [("q".toList, .selective [("p.Lib.Get".toList, .mismatch)])] := by decide
example : validateSettings exApi.allMethods [⟨"p".toList, exListed, false⟩] = [] := by decide

/-! ## Where the real code violates the statement (the input is replayed on /repo by the check), and
the regression theorem for the defect that has been repaired -/

/-- A nested type can be kept while the message that declares it is pruned: `Outer.Inner` (11) and
the enum `Outer.Kind`-like 20 are on the allow-list of `Get`, their enclosing message `Outer` (12) is
not, and `Proto.messages` (top-level messages only) then has no class to hang them on — the emitted
`types` module refers to `Outer.Inner` without defining `Outer` (known finding
`nested-kept-parent-pruned`).  So "kept set is closed under `declared in`" is FALSE for the code
(second theorem), and the kept nested declarations are not among the classes the `types` module
defines (first theorem: `Proto.emitted`). -/
theorem orphan_not_emitted_counterexample :
    ∃ p', pruneProto (allowlist exApi exListed) exLib = some p' ∧
      11 ∈ p'.messages ∧ 20 ∈ p'.enums ∧ 11 ∉ p'.emitted exApi ∧ 20 ∉ p'.emitted exApi ∧
      p'.emitted exApi = [10, 13, 14] :=
  ⟨{ exLib with services := [{ exLibSvc with methods := [exGet] }], messages := [10, 11, 13, 14], enums := [20] },
   by decide, by decide, by decide, by decide, by decide, by decide⟩

theorem nested_kept_parent_pruned_counterexample :
    ∃ (api : Api) (listed : List (List Char)) (parent : Message) (child : Addr),
      api.wf listed = true ∧ api.wfAddrs listed = true ∧ parent ∈ api.msgs ∧ child ∈ parent.nestedMsgs ∧
      child ∈ allowlist api listed ∧ parent.addr ∉ allowlist api listed :=
  ⟨exApi, exListed, ⟨12, [], [20, 21], [11]⟩, 11, by decide, by decide, by decide, by decide, by decide, by decide⟩

/-- Regression for the repaired defect `version-prefix-not-segment-aligned` (`fix:` a25ff42): a method
of package `a.v1beta` listed under the settings of version `a.v1` exists in the API and shares the
string prefix, and is nevertheless rejected as a version mismatch. -/
theorem version_prefix_rejected :
    validateSettings [['a','.','v','1','b','e','t','a','.','S','.','M']]
        [⟨['a','.','v','1'], [['a','.','v','1','b','e','t','a','.','S','.','M']], false⟩]
      = [(['a','.','v','1'], .selective [(['a','.','v','1','b','e','t','a','.','S','.','M'], .mismatch)])] := by
  decide

/-- In general: a listed method in whose name the version is not followed by a dot is rejected, even
if it exists and the version is a string prefix of it. -/
theorem version_must_end_a_segment (allMethods : List (List Char)) (version rest : List Char)
    (hrest : ∀ r, rest ≠ '.' :: r) :
    validateSettings allMethods [⟨version, [version ++ rest], false⟩] ≠ [] := by
  have hbad : BadMethod allMethods version (version ++ rest) := by
    right
    rw [Bool.eq_false_iff]
    intro h
    obtain ⟨t, ht⟩ := List.isPrefixOf_iff_prefix.mp h
    rw [List.append_assoc] at ht
    have := List.append_cancel_left ht
    exact hrest t (by simpa using this.symm)
  exact validateLoop_ne_nil allMethods [⟨version, [version ++ rest], false⟩] [] []
    (Or.inr ⟨⟨version, [version ++ rest], false⟩, by simp, version ++ rest, by simp, hbad⟩)

end GapicModel.Props.C16
