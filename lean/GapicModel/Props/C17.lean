import GapicModel.Model.Mixins
import GapicModel.Pinned.Tables
/-
C17 — mixin RPCs are exposed exactly as configured in the service YAML.
-/
namespace GapicModel.Props.C17
open GapicModel.Model.Mixins

section Aux

theorem keys_dictSet {α : Type} (d : List (String × α)) (k' : String) (v : α) (k : String) :
    k ∈ keys (dictSet d k' v) ↔ k = k' ∨ k ∈ keys d := by
  induction d with
  | nil => simp [dictSet, keys]
  | cons hd tl ih =>
    obtain ⟨a, b⟩ := hd
    simp only [dictSet]
    by_cases h : a = k'
    · subst h; simp [keys]
    · simp only [h, if_false]
      simp only [keys, List.map_cons, List.mem_cons] at ih ⊢
      rw [ih]
      constructor
      · rintro (h1 | h1 | h1)
        · exact Or.inr (Or.inl h1)
        · exact Or.inl h1
        · exact Or.inr (Or.inr h1)
      · rintro (h1 | h1 | h1)
        · exact Or.inr (Or.inl h1)
        · exact Or.inl h1
        · exact Or.inr (Or.inr h1)

theorem dictGet_dictSet {α : Type} (d : List (String × α)) (k' : String) (v : α) (k : String) :
    dictGet (dictSet d k' v) k = if k' = k then some v else dictGet d k := by
  induction d with
  | nil => simp [dictSet, dictGet]
  | cons hd tl ih =>
    obtain ⟨a, b⟩ := hd
    simp only [dictSet]
    by_cases h : a = k'
    · subst h
      by_cases h2 : a = k <;> simp [dictGet, h2]
    · simp only [h, if_false, dictGet]
      by_cases h2 : a = k
      · subst h2; simp [Ne.symm h]
      · simp [h2, ih]

theorem keys_dictMerge {α : Type} (a b : List (String × α)) (k : String) :
    k ∈ keys (dictMerge a b) ↔ k ∈ keys a ∨ k ∈ keys b := by
  unfold dictMerge
  induction b generalizing a with
  | nil => simp [keys]
  | cons hd tl ih =>
    simp only [List.foldl_cons]
    rw [ih, keys_dictSet]
    simp only [keys, List.map_cons, List.mem_cons]
    constructor
    · rintro ((h | h) | h)
      · exact Or.inr (Or.inl h)
      · exact Or.inl h
      · exact Or.inr (Or.inr h)
    · rintro (h | h | h)
      · exact Or.inl (Or.inr h)
      · exact Or.inl (Or.inl h)
      · exact Or.inr h

theorem dictGet_isSome_iff {α : Type} (d : List (String × α)) (k : String) :
    (dictGet d k).isSome ↔ k ∈ keys d := by
  induction d with
  | nil => simp [dictGet, keys]
  | cons hd tl ih =>
    obtain ⟨a, b⟩ := hd
    simp only [dictGet, keys, List.map_cons, List.mem_cons]
    by_cases h : a = k
    · simp [h]
    · simp only [h, if_false]
      rw [ih]
      constructor
      · intro h1; exact Or.inr h1
      · rintro (h1 | h1)
        · exact absurd h1.symm h
        · exact h1

theorem dictGet_map {α β : Type} (d : List (String × α)) (f : String → α → β) (k : String) :
    dictGet (d.map fun kv => (kv.1, f kv.1 kv.2)) k = (dictGet d k).map (f k) := by
  induction d with
  | nil => simp [dictGet]
  | cons hd tl ih =>
    obtain ⟨a, b⟩ := hd
    simp only [List.map_cons, dictGet]
    by_cases h : a = k
    · subst h; simp
    · simp [h, ih]

theorem mem_of_dictGet {α : Type} (d : List (String × α)) (k : String) (v : α) (h : dictGet d k = some v) :
    (k, v) ∈ d := by
  induction d with
  | nil => simp [dictGet] at h
  | cons hd tl ih =>
    obtain ⟨a, b⟩ := hd
    simp only [dictGet] at h
    by_cases h2 : a = k
    · subst h2; simp at h; subst h; simp
    · simp only [h2, if_false] at h
      exact List.mem_cons_of_mem _ (ih h)

theorem all_dictSet {α : Type} (P : String × α → Prop) (d : List (String × α)) (k : String) (v : α)
    (hd : ∀ kv ∈ d, P kv) (hk : P (k, v)) : ∀ kv ∈ dictSet d k v, P kv := by
  induction d with
  | nil => intro kv h; simp [dictSet] at h; subst h; exact hk
  | cons hd' tl ih =>
    obtain ⟨a, b⟩ := hd'
    simp only [dictSet]
    by_cases h : a = k
    · simp only [h, if_true]
      intro kv hkv
      rcases List.mem_cons.1 hkv with rfl | h1
      · exact hk
      · exact hd kv (List.mem_cons_of_mem _ h1)
    · simp only [h, if_false]
      intro kv hkv
      rcases List.mem_cons.1 hkv with rfl | h1
      · exact hd _ (List.mem_cons_self ..)
      · exact ih (fun kv h2 => hd kv (List.mem_cons_of_mem _ h2)) kv h1

theorem all_dictMerge {α : Type} (P : String × α → Prop) (a b : List (String × α))
    (ha : ∀ kv ∈ a, P kv) (hb : ∀ kv ∈ b, P kv) : ∀ kv ∈ dictMerge a b, P kv := by
  unfold dictMerge
  induction b generalizing a with
  | nil => simpa using ha
  | cons hd tl ih =>
    simp only [List.foldl_cons]
    apply ih
    · exact all_dictSet P a hd.1 hd.2 ha (hb hd (List.mem_cons_self ..))
    · intro kv h; exact hb kv (List.mem_cons_of_mem _ h)

theorem foldl_inv {α β : Type} (P : String × α → Prop) (f : List (String × α) → β → List (String × α))
    (init : List (String × α)) (xs : List β) (h0 : ∀ kv ∈ init, P kv)
    (hstep : ∀ d x, (∀ kv ∈ d, P kv) → ∀ kv ∈ f d x, P kv) : ∀ kv ∈ xs.foldl f init, P kv := by
  induction xs generalizing init with
  | nil => simpa using h0
  | cons x xs ih => simp only [List.foldl_cons]; exact ih _ (hstep init x h0)

/-- the fold of `_get_methods_from_service`, with an arbitrary starting dict -/
def mfStep (a : MixinApi) (d : List (String × Rule)) (r : Rule) : List (String × Rule) :=
  match selMethod a r.selector with
  | some m => dictSet d m r
  | none => d

theorem methodsFrom_eq (a : MixinApi) (rules : List Rule) :
    methodsFrom a rules = rules.foldl (mfStep a) [] := rfl

theorem keys_foldl_mfStep (a : MixinApi) (rules : List Rule) (d : List (String × Rule)) (m : String) :
    m ∈ keys (rules.foldl (mfStep a) d) ↔ m ∈ keys d ∨ ∃ r ∈ rules, selMethod a r.selector = some m := by
  induction rules generalizing d with
  | nil => simp
  | cons r rs ih =>
    simp only [List.foldl_cons]
    rw [ih]
    simp only [List.mem_cons, exists_eq_or_imp]
    unfold mfStep
    cases hsel : selMethod a r.selector with
    | none => simp
    | some m' =>
      simp only [keys_dictSet, Option.some.injEq]
      constructor
      · rintro ((h | h) | h)
        · exact Or.inr (Or.inl h.symm)
        · exact Or.inl h
        · exact Or.inr (Or.inr h)
      · rintro (h | h | h)
        · exact Or.inl (Or.inr h)
        · exact Or.inl (Or.inl h.symm)
        · exact Or.inr h

theorem get_foldl_mfStep (a : MixinApi) (rules : List Rule) (d : List (String × Rule)) (m : String) :
    dictGet (rules.foldl (mfStep a) d) m =
      match rules.reverse.find? (fun r => selMethod a r.selector == some m) with
      | some r => some r
      | none => dictGet d m := by
  induction rules generalizing d with
  | nil => simp
  | cons r rs ih =>
    simp only [List.foldl_cons, List.reverse_cons, List.find?_append]
    rw [ih]
    cases hfind : rs.reverse.find? (fun r => selMethod a r.selector == some m) with
    | some r' => simp
    | none =>
      simp only [Option.none_or, List.find?_cons, List.find?_nil]
      unfold mfStep
      cases hsel : selMethod a r.selector with
      | none => simp
      | some m' =>
        rw [dictGet_dictSet]
        by_cases h : m' = m
        · subst h; simp
        · have hb : (m' == m) = false := by simpa using h
          simp [h]
          rw [hb]

theorem all_methodsFrom (a : MixinApi) (rules : List Rule) :
    ∀ kv ∈ methodsFrom a rules, kv.2 ∈ rules ∧ selMethod a kv.2.selector = some kv.1 := by
  rw [methodsFrom_eq]
  have gen : ∀ (rs : List Rule) (d : List (String × Rule)),
      (∀ kv ∈ d, kv.2 ∈ rules ∧ selMethod a kv.2.selector = some kv.1) → (∀ r ∈ rs, r ∈ rules) →
      ∀ kv ∈ rs.foldl (mfStep a) d, kv.2 ∈ rules ∧ selMethod a kv.2.selector = some kv.1 := by
    intro rs
    induction rs with
    | nil => intro d hd _; simpa using hd
    | cons r rs ih =>
      intro d hd hrs
      simp only [List.foldl_cons]
      apply ih
      · unfold mfStep
        cases hsel : selMethod a r.selector with
        | none => exact hd
        | some m' =>
          exact all_dictSet _ d m' r hd ⟨hrs r (List.mem_cons_self ..), hsel⟩
      · intro r' hr'; exact hrs r' (List.mem_cons_of_mem _ hr')
  exact gen rules [] (by intro kv h; cases h) (fun r h => h)

end Aux

/-! ## Selection (gapic/schema/api.py) -/

/-- the API is named under `apis` -/
abbrev Listed (y : Yaml) (a : MixinApi) : Prop := a.fullName ∈ y.apis

/-- the YAML has an HTTP rule whose selector is the canonical name of RPC `m` of API `a` -/
abbrev HasRule (y : Yaml) (a : MixinApi) (m : String) : Prop :=
  m ∈ a.methods ∧ ∃ r ∈ y.rules, r.selector = a.fullName ++ "." ++ m

theorem hasMixin_iff (y : Yaml) (a : MixinApi) : hasMixin y a = true ↔ Listed y a := by
  simp [hasMixin, Listed, List.any_eq_true]

/-- a selector names method `m` of API `a` exactly when it is `<package>.<Service>.<m>` -/
theorem selMethod_iff (a : MixinApi) (sel m : String) :
    selMethod a sel = some m ↔ m ∈ a.methods ∧ sel = a.fullName ++ "." ++ m := by
  constructor
  · intro h
    unfold selMethod at h
    have h1 := List.mem_of_find?_eq_some h
    have h2 := List.find?_some h
    simp only [beq_iff_eq] at h2
    exact ⟨h1, h2.symm⟩
  · rintro ⟨hm, rfl⟩
    cases a <;> simp only [MixinApi.methods, List.mem_cons, List.not_mem_nil, or_false] at hm <;>
      rcases hm with rfl | rfl | rfl | rfl | rfl <;> decide

/-- `_get_methods_from_service` returns the methods of the service that have a rule … -/
theorem methodsFrom_keys_iff (a : MixinApi) (y : Yaml) (m : String) :
    m ∈ keys (methodsFrom a y.rules) ↔ HasRule y a m := by
  rw [methodsFrom_eq, keys_foldl_mfStep]
  simp only [keys, List.map_nil, List.not_mem_nil, false_or, HasRule]
  constructor
  · rintro ⟨r, hr, hs⟩
    rw [selMethod_iff] at hs
    exact ⟨hs.1, r, hr, hs.2⟩
  · rintro ⟨hm, r, hr, hs⟩
    exact ⟨r, hr, (selMethod_iff a r.selector m).2 ⟨hm, hs⟩⟩

/-- … each with the LAST rule that names it (dict assignment). -/
theorem methodsFrom_last_rule (a : MixinApi) (rules : List Rule) (m : String) :
    dictGet (methodsFrom a rules) m = rules.reverse.find? (fun r => selMethod a r.selector == some m) := by
  rw [methodsFrom_eq, get_foldl_mfStep]
  cases rules.reverse.find? (fun r => selMethod a r.selector == some m) <;> simp [dictGet]

/-- `_has_iam_overrides`: IAM is listed and ANY service of the API defines ANY IAM RPC that has a rule. -/
theorem iam_overrides_iff (y : Yaml) (api : Api) :
    iamOverrides y api = true ↔
      Listed y .iam ∧ ∃ s ∈ api.services, ∃ m ∈ s, HasRule y .iam m := by
  unfold iamOverrides
  rw [Bool.and_eq_true, hasMixin_iff]
  apply and_congr Iff.rfl
  simp only [List.any_eq_true, List.contains_iff_mem]
  constructor
  · rintro ⟨s, hs, kv, hkv, hmem⟩
    refine ⟨s, hs, kv.1, hmem, ?_⟩
    rw [← methodsFrom_keys_iff]
    exact List.mem_map_of_mem (f := (·.1)) hkv
  · rintro ⟨s, hs, m, hm, hr⟩
    rw [← methodsFrom_keys_iff] at hr
    simp only [keys, List.mem_map] at hr
    obtain ⟨kv, hkv, rfl⟩ := hr
    exact ⟨s, hs, kv, hkv, hm⟩

theorem included_iff (y : Yaml) (api : Api) (a : MixinApi) :
    included y api a = true ↔ Listed y a ∧ ¬ (a = .iam ∧ iamOverrides y api = true) := by
  cases a <;> simp [included, hasMixin_iff, and_comm]

/-- **`mixin_api_methods`: RPC `m` is selected iff its API is listed, `m` has a rule, and — for IAM —
the API defines no IAM RPC that has a rule.**  (The last conjunct is the code's, not the statement's:
see `iam_override_drops_other_counterexample`.) -/
theorem mixin_exposed_iff (y : Yaml) (api : Api) (m : String) :
    m ∈ keys (mixinApiMethods y api) ↔
      ∃ a, Listed y a ∧ HasRule y a m ∧ ¬ (a = .iam ∧ iamOverrides y api = true) := by
  have step : ∀ (as : List MixinApi) (d : List (String × Rule)),
      m ∈ keys (as.foldl (fun d a => if included y api a then dictMerge d (methodsFrom a y.rules) else d) d) ↔
        m ∈ keys d ∨ ∃ a ∈ as, included y api a = true ∧ HasRule y a m := by
    intro as
    induction as with
    | nil => simp
    | cons a as ih =>
      intro d
      simp only [List.foldl_cons]
      rw [ih]
      simp only [List.mem_cons, exists_eq_or_imp]
      by_cases hinc : included y api a = true
      · simp only [hinc, if_true, keys_dictMerge, methodsFrom_keys_iff, true_and]
        exact or_assoc
      · simp [hinc]
  unfold mixinApiMethods
  rw [step]
  simp only [keys, List.map_nil, List.not_mem_nil, false_or]
  constructor
  · rintro ⟨a, _, hinc, hr⟩
    rw [included_iff] at hinc
    exact ⟨a, hinc.1, hr, hinc.2⟩
  · rintro ⟨a, hl, hr, hno⟩
    refine ⟨a, ?_, (included_iff y api a).2 ⟨hl, hno⟩, hr⟩
    cases a <;> simp [allApis]

/-- every entry of `mixin_api_methods` carries a rule of the YAML whose selector names that very RPC
(which one: the last, `methodsFrom_last_rule`) -/
theorem mixin_rule_from_yaml (y : Yaml) (api : Api) (m : String) (r : Rule)
    (h : dictGet (mixinApiMethods y api) m = some r) :
    r ∈ y.rules ∧ ∃ a, Listed y a ∧ selMethod a r.selector = some m := by
  have hmem := mem_of_dictGet _ _ _ h
  have hall : ∀ kv ∈ mixinApiMethods y api, kv.2 ∈ y.rules ∧ ∃ a, Listed y a ∧ selMethod a kv.2.selector = some kv.1 := by
    unfold mixinApiMethods
    apply foldl_inv (P := fun kv => kv.2 ∈ y.rules ∧ ∃ a, Listed y a ∧ selMethod a kv.2.selector = some kv.1)
    · intro kv hkv; cases hkv
    · intro d a hd
      by_cases hinc : included y api a = true
      · simp only [hinc, if_true]
        apply all_dictMerge _ _ _ hd
        have hl : Listed y a := ((included_iff y api a).1 hinc).1
        intro kv hkv
        obtain ⟨h1, h2⟩ := all_methodsFrom a y.rules kv hkv
        exact ⟨h1, a, hl, h2⟩
      · simp only [hinc]; exact hd
  exact hall (m, r) hmem

/-- **None are exposed when no mixin API is listed** — whatever rules the YAML carries. -/
theorem none_when_unlisted (y : Yaml) (api : Api) (h : ∀ a, ¬ Listed y a) :
    mixinApiMethods y api = [] ∧ ∀ k, exposedMixins y api ⟨false⟩ k = [] := by
  have hk : ∀ m, m ∉ keys (mixinApiMethods y api) := by
    intro m hm
    obtain ⟨a, hl, _⟩ := (mixin_exposed_iff y api m).1 hm
    exact h a hl
  have hnil : mixinApiMethods y api = [] := by
    cases hd : mixinApiMethods y api with
    | nil => rfl
    | cons kv tl => exact absurd (by simp [hd, keys]) (hk kv.1)
  refine ⟨hnil, fun k => ?_⟩
  have h1 : ∀ a, hasMixin y a = false := fun a => by
    cases hh : hasMixin y a with
    | false => rfl
    | true => exact absurd ((hasMixin_iff y a).1 hh) (h a)
  simp [exposedMixins, h1]

/-- one unlisted API: none of ITS methods is exposed, whatever the other two do -/
theorem none_of_unlisted_api (y : Yaml) (api : Api) (a : MixinApi) (h : ¬ Listed y a) (m : String)
    (hm : m ∈ a.methods) : m ∉ keys (mixinApiMethods y api) := by
  intro hk
  obtain ⟨a', hl, hr, _⟩ := (mixin_exposed_iff y api m).1 hk
  have : a' = a := by
    have h1 := hr.1
    cases a <;> cases a' <;> first | rfl | (exfalso; revert hm h1; simp only [MixinApi.methods, List.mem_cons, List.not_mem_nil, or_false]; rintro (rfl | rfl | rfl | rfl | rfl) <;> decide)
  exact h (this ▸ hl)

/-- **IAM mixins yield to same-named RPCs**: an IAM RPC that the API defines itself (and that has a
rule) is never selected as a mixin. -/
theorem iam_yields_to_same_named (y : Yaml) (api : Api) (s : List String) (m : String)
    (hs : s ∈ api.services) (hm : m ∈ s) (hiam : m ∈ MixinApi.iam.methods) :
    m ∉ keys (mixinApiMethods y api) := by
  intro hk
  obtain ⟨a, hl, hr, hno⟩ := (mixin_exposed_iff y api m).1 hk
  have ha : a = .iam := by
    have h1 := hr.1
    cases a <;> first | rfl | (exfalso; revert hiam h1; simp only [MixinApi.methods, List.mem_cons, List.not_mem_nil, or_false]; rintro (rfl | rfl | rfl) <;> decide)
  subst ha
  exact hno ⟨rfl, (iam_overrides_iff y api).2 ⟨hl, s, hs, m, hm, hr⟩⟩

def cexYaml : Yaml := ⟨["google.iam.v1.IAMPolicy"],
  [⟨"google.iam.v1.IAMPolicy.GetIamPolicy", ⟨"get", "/v1/{resource=books/*}:getIamPolicy", ""⟩, []⟩,
   ⟨"google.iam.v1.IAMPolicy.SetIamPolicy", ⟨"post", "/v1/{resource=books/*}:setIamPolicy", "*"⟩, []⟩]⟩
def cexApi : Api := ⟨[["GetBook", "SetIamPolicy"]]⟩

/-- … but the code drops EVERY IAM mixin then, not only the same-named one: `GetIamPolicy` is listed,
has a rule, is not defined by the API — and is not selected, because the API defines `SetIamPolicy`.
(Reproduced on the real generator: finding `iam-override-drops-all`.) -/
theorem iam_override_drops_other_counterexample :
    Listed cexYaml .iam ∧ HasRule cexYaml .iam "GetIamPolicy" ∧ (∀ s ∈ cexApi.services, "GetIamPolicy" ∉ s) ∧
      "GetIamPolicy" ∉ keys (mixinApiMethods cexYaml cexApi) := by
  decide

/-- when the API defines none of the IAM RPCs that have a rule, selection is exactly "listed and has a rule" -/
theorem mixin_exposed_iff_no_override (y : Yaml) (api : Api) (m : String)
    (h : ∀ s ∈ api.services, ∀ m' ∈ s, ¬ HasRule y .iam m') :
    m ∈ keys (mixinApiMethods y api) ↔ ∃ a, Listed y a ∧ HasRule y a m := by
  rw [mixin_exposed_iff]
  have hno : iamOverrides y api ≠ true := by
    intro ho
    obtain ⟨_, s, hs, m', hm', hr⟩ := (iam_overrides_iff y api).1 ho
    exact h s hs m' hm' hr
  constructor
  · rintro ⟨a, hl, hr, _⟩; exact ⟨a, hl, hr⟩
  · rintro ⟨a, hl, hr⟩; exact ⟨a, hl, hr, fun hc => hno hc.2⟩

example : (∀ s ∈ (⟨[["GetBook"]]⟩ : Api).services, ∀ m' ∈ s,
    ¬ HasRule ⟨["google.iam.v1.IAMPolicy"], [⟨"google.iam.v1.IAMPolicy.GetIamPolicy", ⟨"get", "/v1/{resource=books/*}", ""⟩, []⟩]⟩ .iam m') := by
  intro s hs m' hm'
  simp at hs; subst hs; simp at hm'; subst hm'
  intro h; exact absurd h.1 (by decide)

/-! ## Proto sub-packages: the `api` a service's templates are rendered with

`Generator._render_template` renders the `%sub/services/%service/…` templates of a service declared in a
file of sub-package `v` of the API with `dataclasses.replace(api, subpackage_view=v)`; every theorem above
speaks about the `Api` that object shows (`FullApi.view`).  A client of the API package sees the whole API;
a client of a sub-package sees that sub-package only — so "the API defines an IAM RPC" is decided per view. -/

theorem mem_view_iff (a : FullApi) (v ms : List String) :
    ms ∈ (a.view v).services ↔ ∃ s ∈ a.services, v <+: s.subpackage ∧ s.methods = ms := by
  simp only [FullApi.view, List.mem_map, List.mem_filter, List.isPrefixOf_iff_prefix]
  constructor
  · rintro ⟨s, ⟨hs, hp⟩, rfl⟩; exact ⟨s, hs, hp, rfl⟩
  · rintro ⟨s, hs, hp, rfl⟩; exact ⟨s, ⟨hs, hp⟩, rfl⟩

/-- the API object itself (`subpackage_view = ()`, services of the API package): every service of the API -/
theorem view_root (a : FullApi) : (a.view []).services = a.services.map (·.methods) := by
  simp only [FullApi.view, List.isPrefixOf]
  rw [List.filter_eq_self.2 (fun _ _ => rfl)]

/-- `_has_iam_overrides` as the templates of service `s` get it: IAM is listed and a service declared in
`s`'s sub-package OR BELOW defines an IAM RPC that has a rule. -/
theorem client_iam_overrides_iff (y : Yaml) (a : FullApi) (s : Svc) :
    iamOverrides y (a.seenBy s) = true ↔
      Listed y .iam ∧ ∃ s' ∈ a.services, s.subpackage <+: s'.subpackage ∧ ∃ m ∈ s'.methods, HasRule y .iam m := by
  rw [iam_overrides_iff]
  apply and_congr Iff.rfl
  constructor
  · rintro ⟨ms, hms, m, hm, hr⟩
    obtain ⟨s', hs', hp, rfl⟩ := (mem_view_iff a _ ms).1 hms
    exact ⟨s', hs', hp, m, hm, hr⟩
  · rintro ⟨s', hs', hp, m, hm, hr⟩
    exact ⟨s'.methods, (mem_view_iff a _ _).2 ⟨s', hs', hp, rfl⟩, m, hm, hr⟩

/-- **the mixin RPCs of the client of service `s`**: `m` is selected iff its API is listed, `m` has a rule and —
for IAM — no service in the sub-package view of `s` defines an IAM RPC that has a rule.  (`mixin_exposed_iff`
at the `api` object that client is generated from.) -/
theorem client_mixin_exposed_iff (y : Yaml) (a : FullApi) (s : Svc) (m : String) :
    m ∈ keys (mixinApiMethods y (a.seenBy s)) ↔
      ∃ x, Listed y x ∧ HasRule y x m ∧
        ¬ (x = .iam ∧ ∃ s' ∈ a.services, s.subpackage <+: s'.subpackage ∧ ∃ m' ∈ s'.methods, HasRule y .iam m') := by
  rw [mixin_exposed_iff]
  constructor
  · rintro ⟨x, hl, hr, hno⟩
    refine ⟨x, hl, hr, ?_⟩
    rintro ⟨hx, hex⟩
    subst hx
    exact hno ⟨rfl, (client_iam_overrides_iff y a s).2 ⟨hl, hex⟩⟩
  · rintro ⟨x, hl, hr, hno⟩
    exact ⟨x, hl, hr, fun hc => hno ⟨hc.1, ((client_iam_overrides_iff y a s).1 hc.2).2⟩⟩

/-- IAM mixins yield to a same-named RPC of any service INSIDE the client's view … -/
theorem iam_yields_within_view (y : Yaml) (a : FullApi) (s s' : Svc) (m : String)
    (hs' : s' ∈ a.services) (hp : s.subpackage <+: s'.subpackage) (hm : m ∈ s'.methods)
    (hiam : m ∈ MixinApi.iam.methods) :
    m ∉ keys (mixinApiMethods y (a.seenBy s)) :=
  iam_yields_to_same_named y _ s'.methods m ((mem_view_iff a _ _).2 ⟨s', hs', hp, rfl⟩) hm hiam

/-- … in particular a client of the API package yields to the RPCs of EVERY service of the API, wherever declared. -/
theorem iam_yields_api_package_client (y : Yaml) (a : FullApi) (s s' : Svc) (m : String)
    (hroot : s.subpackage = []) (hs' : s' ∈ a.services) (hm : m ∈ s'.methods) (hiam : m ∈ MixinApi.iam.methods) :
    m ∉ keys (mixinApiMethods y (a.seenBy s)) :=
  iam_yields_within_view y a s s' m hs' (hroot ▸ List.nil_prefix) hm hiam

/-- `Library` (API package) defines `GetIamPolicy`; `Admin` lives in the sub-package `stacks` / in the API package -/
def cexSubApi : FullApi := ⟨[⟨[], ["GetBook", "GetIamPolicy"]⟩, ⟨["stacks"], ["PingBook"]⟩]⟩
def cexFlatApi : FullApi := ⟨[⟨[], ["GetBook", "GetIamPolicy"]⟩, ⟨[], ["PingBook"]⟩]⟩

example : (⟨["stacks", "east"], ["PingBook"]⟩ : Svc) ∈ (⟨[⟨[], ["GetBook"]⟩, ⟨["stacks", "east"], ["PingBook"]⟩]⟩ : FullApi).services ∧
    (⟨["stacks"], ["X"]⟩ : Svc).subpackage <+: ["stacks", "east"] ∧ ([] : List String) = (⟨[], ["GetBook"]⟩ : Svc).subpackage ∧
    "GetIamPolicy" ∈ MixinApi.iam.methods := by
  refine ⟨by simp, ⟨["east"], rfl⟩, rfl, by decide⟩

/-- … but NOT to an RPC of a service outside the view: the API defines `GetIamPolicy` (ruled, in the service of
the API package), and the client of the sub-package service `Admin` still gets the mixin `GetIamPolicy`;
declared in the API package, the same `Admin` does not, nor does `Library`.  The statement's "RPCs defined by the
API itself" is read by the code as "by the client's own sub-package".  (Reproduced on the real generator:
finding `iam-yield-per-subpackage-view`.) -/
theorem iam_yield_stops_at_view_counterexample :
    Listed cexYaml .iam ∧ HasRule cexYaml .iam "GetIamPolicy" ∧
    (cexSubApi.view []).services = [["GetBook", "GetIamPolicy"], ["PingBook"]] ∧
    "GetIamPolicy" ∈ keys (mixinApiMethods cexYaml (cexSubApi.seenBy ⟨["stacks"], ["PingBook"]⟩)) ∧
    "GetIamPolicy" ∉ keys (mixinApiMethods cexYaml (cexFlatApi.seenBy ⟨[], ["PingBook"]⟩)) ∧
    "GetIamPolicy" ∉ keys (mixinApiMethods cexYaml (cexSubApi.seenBy ⟨[], ["GetBook", "GetIamPolicy"]⟩)) := by
  decide

/-! ## Selective generation: an API-defined IAM RPC counts whether it is generated public or internal

`_has_iam_overrides` asks `m_name in s.methods` of the services `API.build` left: an RPC generated as INTERNAL
(`generate_omitted_as_internal`) is still there — the mixins yield to it (its transport property and stub keep the
name `set_iam_policy`; a same-named mixin stub would shadow it) —, an OMITTED one is not. -/

theorem generated_ignores_internal (s : SrcSvc) : s.publicised.generated = s.generated := by
  obtain ⟨sub, ms⟩ := s
  simp only [SrcSvc.generated, SrcSvc.publicised, Svc.mk.injEq, true_and]
  induction ms with
  | nil => rfl
  | cons m ms ih =>
    obtain ⟨n, g⟩ := m
    cases g <;> simp_all [Gen.publicised]

theorem api_generated_ignores_internal (a : SrcApi) : a.publicised.generated = a.generated := by
  simp only [SrcApi.generated, SrcApi.publicised, List.map_map, FullApi.mk.injEq]
  apply List.map_congr_left
  intro s _
  exact generated_ignores_internal s

/-- **`is_internal` does not matter**: whether the API's RPCs are generated public or internal, every client of the
library gets the same `_has_iam_overrides` and the same mixin RPCs. -/
theorem iam_overrides_ignores_internal (y : Yaml) (a : SrcApi) (v : List String) :
    iamOverrides y (a.publicised.generated.view v) = iamOverrides y (a.generated.view v) ∧
      mixinApiMethods y (a.publicised.generated.view v) = mixinApiMethods y (a.generated.view v) := by
  rw [api_generated_ignores_internal]
  exact ⟨rfl, rfl⟩

/-- **IAM mixins yield to a same-named RPC that the API defines and the library carries as INTERNAL** (in a service
of the client's view), exactly as to a public one. -/
theorem iam_yields_to_internal_rpc (y : Yaml) (a : SrcApi) (s s' : SrcSvc) (m : String)
    (hs' : s' ∈ a.services) (hp : s.subpackage <+: s'.subpackage) (hm : (m, Gen.internal) ∈ s'.methods)
    (hiam : m ∈ MixinApi.iam.methods) :
    m ∉ keys (mixinApiMethods y (a.generated.seenBy s.generated)) := by
  apply iam_yields_within_view y a.generated s.generated s'.generated m
  · exact List.mem_map_of_mem hs'
  · exact hp
  · simp only [SrcSvc.generated, List.mem_map, List.mem_filter]
    exact ⟨(m, Gen.internal), ⟨hm, rfl⟩, rfl⟩
  · exact hiam

def selLibrary (g : Gen) : SrcSvc := ⟨[], [("GetBook", .pub), ("SetIamPolicy", g)]⟩

example : selLibrary .internal ∈ (⟨[selLibrary .internal]⟩ : SrcApi).services ∧
    (selLibrary .internal).subpackage <+: (selLibrary .internal).subpackage ∧
    ("SetIamPolicy", Gen.internal) ∈ (selLibrary .internal).methods ∧ "SetIamPolicy" ∈ MixinApi.iam.methods := by
  refine ⟨by simp, List.prefix_refl _, by simp [selLibrary], by decide⟩

/-- the three fates of the API's own `SetIamPolicy` under the YAML of `cexYaml` (IAM listed; `GetIamPolicy` and
`SetIamPolicy` ruled): public and internal make the mixins yield (all of them — `iam_override_drops_other_counterexample`),
omitted leaves nothing to yield to and both mixins are selected. -/
theorem own_rpc_fates_example :
    keys (mixinApiMethods cexYaml ((⟨[selLibrary .pub]⟩ : SrcApi).generated.view [])) = [] ∧
    keys (mixinApiMethods cexYaml ((⟨[selLibrary .internal]⟩ : SrcApi).generated.view [])) = [] ∧
    keys (mixinApiMethods cexYaml ((⟨[selLibrary .omitted]⟩ : SrcApi).generated.view [])) = ["GetIamPolicy", "SetIamPolicy"] := by
  decide

/-! ## HTTP options -/

theorem http_options_from_rule (nm : Names) (y : Yaml) (api : Api) (m : String) :
    dictGet (mixinHttpOptions nm y api) m =
      (dictGet (mixinApiMethods y api) m).map fun r => r.bindings.filterMap (tryParse nm) := by
  unfold mixinHttpOptions
  exact dictGet_map (mixinApiMethods y api) (fun _ r => r.bindings.filterMap (tryParse nm)) m

/-- `try_parse_http_rule` keeps the binding's verb, passes the path through `convert_uri_fieldnames`, drops
`custom`/unset/empty patterns, keeps the body — and appends `_` to a body that is a reserved word (always,
since 3aedaba). -/
theorem tryParse_verb_uri_body (nm : Names) (b : Binding) (r : HttpRule) (h : tryParse nm b = some r) :
    r.method = b.verb ∧ r.uri = convertUri nm.fixPath b.uri ∧ b.verb ≠ "" ∧ b.verb ≠ "custom" ∧ b.uri ≠ "" ∧
      r.body = (if b.body = "" then none else if b.body ∈ nm.reserved then some (b.body ++ "_") else some b.body) := by
  unfold tryParse at h
  split at h
  · simp at h
  · rename_i hv
    split at h
    · simp at h
    · rename_i hu
      simp only [Bool.or_eq_true, beq_iff_eq, not_or] at hv
      simp only [beq_iff_eq] at hu
      simp only [Option.some.injEq] at h
      subst h
      refine ⟨rfl, rfl, hv.1, hv.2, hu, ?_⟩
      by_cases hb : b.body = ""
      · simp [hb]
      · by_cases hr : b.body ∈ nm.reserved <;> simp [hb, hr]

example : tryParse ⟨["format"], id⟩ ⟨"post", "/v1/{name=a/*}", "format"⟩ = some ⟨"post", "/v1/{name=a/*}", some "format_"⟩ := by
  decide

/-- `convert_uri_fieldnames` touches nothing but variable names: with a `fix` that leaves the names of a
template alone (no field of the canonical mixin requests is a reserved word) the URI is unchanged — shown on
the shapes the service YAMLs use -/
theorem convertUri_id_examples :
    convertUri id "/v1/{name=projects/*/locations/*}/operations" = "/v1/{name=projects/*/locations/*}/operations" ∧
      convertUri id "/v1/{resource}:getIamPolicy" = "/v1/{resource}:getIamPolicy" ∧
      convertUri (fun n => n ++ ['_']) "/v1/{type=a/*}/x/{id}" = "/v1/{type_=a/*}/x/{id_}" := by
  decide

/-! ## Client surface -/

/-- the sync and asyncio templates carry the same guards -/
theorem sync_async_alike (y : Yaml) (api : Api) (o : Opts) :
    exposedMixins y api o .sync = exposedMixins y api o .async := rfl

/-- **Without the legacy option the clients define exactly the selected mixin RPCs** (so, by
`mixin_exposed_iff`, exactly those listed ∧ with a rule ∧ not IAM-overridden). -/
theorem exposed_iff_selected (y : Yaml) (api : Api) (k : ClientKind) (m : String) :
    m ∈ exposedMixins y api ⟨false⟩ k ↔ m ∈ keys (mixinApiMethods y api) := by
  constructor
  · intro h
    simp only [exposedMixins, Bool.not_false, Bool.true_and, Bool.false_eq_true, if_false, List.append_nil,
      List.mem_append] at h
    rcases h with (h | h) | h <;>
    · split at h
      · exact List.contains_iff_mem.1 (List.mem_filter.1 h).2
      · cases h
  · intro h
    obtain ⟨a, hl, hr, _⟩ := (mixin_exposed_iff y api m).1 h
    have hc : (keys (mixinApiMethods y api)).contains m = true := List.contains_iff_mem.2 h
    have hh := (hasMixin_iff y a).2 hl
    have hm := hr.1
    simp only [exposedMixins, Bool.not_false, Bool.true_and, Bool.false_eq_true, if_false, List.append_nil,
      List.mem_append]
    cases a
    · refine Or.inr ?_
      simp only [hh, if_true, List.mem_filter, hc, and_true]
      revert hm; simp only [MixinApi.methods, tmplLocations, List.mem_cons, List.not_mem_nil, or_false]
      rintro (rfl | rfl) <;> simp
    · refine Or.inl (Or.inr ?_)
      simp only [hh, if_true, List.mem_filter, hc, and_true]
      revert hm; simp only [MixinApi.methods, tmplIam, List.mem_cons, List.not_mem_nil, or_false]
      exact id
    · refine Or.inl (Or.inl ?_)
      simp only [hh, if_true, List.mem_filter, hc, and_true]
      revert hm; simp only [MixinApi.methods, tmplOperations, List.mem_cons, List.not_mem_nil, or_false]
      exact id

/-! ## gRPC -/

def routingFieldOf (a : MixinApi) : String := if a = .iam then "resource" else "name"

/-- **Canonical paths, request types and routing header field**: for every RPC of the three mixin APIs
the stub's path is `/<package>.<Service>/<Method>`, the request serializer is the canonical input type,
and the routing header is built from `name` (`resource` for IAM). -/
theorem canonical_paths (a : MixinApi) (m : String) (hm : m ∈ a.methods) :
    ∃ s, grpcSpec m = some s ∧ s.path = "/" ++ a.fullName ++ "/" ++ m ∧
      s.routingField = routingFieldOf a ∧ (dictGet canonicalTypes m).map (·.1) = some s.request := by
  cases a <;> simp only [MixinApi.methods, List.mem_cons, List.not_mem_nil, or_false] at hm <;>
    rcases hm with rfl | rfl | rfl | rfl | rfl <;> exact ⟨_, rfl, by decide, by decide, by decide⟩

/-- python spelling of a canonical type in MIXINS_MAP (`<module>_pb2.<Name>`; `Empty` is `None`) -/
def pyName (full : String) : String :=
  let cs := full.toList
  let name := (cs.reverse.takeWhile (· != '.')).reverse
  let pkg := String.ofList (cs.take (cs.length - name.length - 1))
  let nm := String.ofList name
  if full = "google.protobuf.Empty" then "None"
  else if pkg = "google.longrunning" then "operations_pb2." ++ nm
  else if pkg = "google.cloud.location" then "locations_pb2." ++ nm
  else if pkg = "google.iam.v1" then (if nm = "Policy" then "policy_pb2." else "iam_policy_pb2.") ++ nm
  else full

/-- the request / response types of gapic/schema/mixins.py:MIXINS_MAP (bridged from /repo by T1:
`Bridge.mixinsMap`) are the canonical descriptor types — these strings type the REST mixin methods. -/
theorem mixins_map_is_canonical :
    ∀ t ∈ canonicalTypes, (Pinned.mixinsMap.find? (·.1 == t.1)) = some (t.1, pyName t.2.1, pyName t.2.2) := by
  decide

theorem mixins_map_covers_exactly : Pinned.mixinsMap.length = canonicalTypes.length := by decide

/-- **Over gRPC the response deserializer is the canonical output type (`Empty` ↦ `None`) for every
mixin RPC** — including `WaitOperation` since the `fix:` commit feb77eb (regression: its stub used
`response_deserializer=None` and the clients returned raw bytes). -/
theorem grpc_response_canonical (m : String) (hm : m ∈ allApis.flatMap (·.methods)) :
    (grpcSpec m).map (·.resp) = canonicalResp m := by
  simp only [allApis, List.flatMap_cons, List.flatMap_nil, MixinApi.methods, List.append_nil, List.cons_append,
    List.nil_append, List.mem_cons, List.not_mem_nil, or_false] at hm
  rcases hm with rfl | rfl | rfl | rfl | rfl | rfl | rfl | rfl | rfl | rfl <;> decide

/-- regression for feb77eb: `wait_operation` yields an `Operation`, and no stub returns raw bytes -/
theorem wait_operation_grpc_response_regression :
    (grpcSpec "WaitOperation").map (·.resp) = some (.message "google.longrunning.Operation") ∧
      ∀ kv ∈ grpcTable, kv.2.resp ≠ .rawBytes := by
  decide

/-- a selected mixin RPC, called on either client without the legacy option, goes out with its table entry -/
theorem grpc_call_sent_iff (y : Yaml) (api : Api) (k : ClientKind) (m : String) (s : GrpcSpec) :
    grpcCall y api ⟨false⟩ k m = .sent s ↔ m ∈ keys (mixinApiMethods y api) ∧ grpcSpec m = some s := by
  unfold grpcCall
  by_cases hc : (exposedMixins y api ⟨false⟩ k).contains m = true
  · have hk := (exposed_iff_selected y api k m).1 (List.contains_iff_mem.1 hc)
    simp only [hc, Bool.not_true, Bool.false_eq_true, if_false]
    cases hg : grpcSpec m with
    | none => simp
    | some s' => simp [hk]
  · have hk : m ∉ keys (mixinApiMethods y api) := fun h =>
      hc (List.contains_iff_mem.2 ((exposed_iff_selected y api k m).2 h))
    have hc' : m ∉ exposedMixins y api ⟨false⟩ k := fun h => hc (List.contains_iff_mem.2 h)
    simp [hc', hk]

/-- distinct mixin RPCs have distinct stub paths: a call dispatched through another method's stub is
visible on the wire even when both replies have the same type (GetOperation / WaitOperation,
GetIamPolicy / SetIamPolicy) -/
theorem grpc_paths_injective :
    ∀ a ∈ grpcTable, ∀ b ∈ grpcTable, a.2.path = b.2.path → a.1 = b.1 := by
  decide

/-- every selected RPC has a signature, and it is the canonical pair of types in MIXINS_MAP's spelling
(the REST mixin methods are typed with these strings) -/
theorem signatures_canonical (y : Yaml) (api : Api) (m : String) (hm : m ∈ keys (mixinApiMethods y api)) :
    ∃ t ∈ canonicalTypes, t.1 = m ∧
      dictGet (mixinApiSignatures Pinned.mixinsMap y api) m = some (some (pyName t.2.1, pyName t.2.2)) := by
  obtain ⟨a, _, hr, _⟩ := (mixin_exposed_iff y api m).1 hm
  have hc : ∃ t ∈ canonicalTypes, t.1 = m := by
    have h1 := hr.1
    cases a <;> simp only [MixinApi.methods, List.mem_cons, List.not_mem_nil, or_false] at h1 <;>
      rcases h1 with rfl | rfl | rfl | rfl | rfl <;> decide
  obtain ⟨t, ht, rfl⟩ := hc
  refine ⟨t, ht, rfl, ?_⟩
  have hmap := mixins_map_is_canonical t ht
  unfold mixinApiSignatures
  have := dictGet_map ((keys (mixinApiMethods y api)).map fun n => (n, ()))
    (fun n _ => (Pinned.mixinsMap.find? (·.1 == n)).map (·.2)) t.1
  simp only [List.map_map] at this
  have hk : dictGet ((keys (mixinApiMethods y api)).map fun n => (n, ())) t.1 = some () := by
    have h2 : t.1 ∈ keys ((keys (mixinApiMethods y api)).map fun n => (n, ())) := by
      simpa [keys] using hm
    have h3 := (dictGet_isSome_iff _ _).2 h2
    cases hd : dictGet ((keys (mixinApiMethods y api)).map fun n => (n, ())) t.1 with
    | none => simp [hd] at h3
    | some u => rfl
  rw [hk] at this
  simpa [Function.comp_def, hmap] using this

example : "GetOperation" ∈ keys (mixinApiMethods ⟨["google.longrunning.Operations"],
    [⟨"google.longrunning.Operations.GetOperation", ⟨"get", "/v1/{name=operations/*}", ""⟩, []⟩]⟩ ⟨[["GetBook"]]⟩) := by
  decide

/-- the wrapped-method tables and the REST transport carry exactly the selected RPCs; the gRPC transports
carry what the clients expose -/
theorem transports_follow_selection (y : Yaml) (api : Api) (o : Opts) (k : ClientKind) :
    wrappedMixins y api = keys (mixinApiMethods y api) ∧ restTransportMixins y api = keys (mixinApiMethods y api) ∧
      grpcTransportMixins y api o = exposedMixins y api o k := by
  cases k <;> exact ⟨rfl, rfl, rfl⟩

/-! ## Legacy `add-iam-methods` -/

/-- **The legacy option puts the three IAM RPCs on the sync and the asyncio client alike**, whatever the YAML. -/
theorem legacy_iam_three_methods_both_clients (y : Yaml) (api : Api) (k : ClientKind) (m : String)
    (hm : m ∈ tmplIam) : m ∈ exposedMixins y api ⟨true⟩ k := by
  simp only [exposedMixins, Bool.not_true, Bool.false_and, Bool.false_eq_true, if_false, if_true, List.append_nil,
    List.mem_append]
  exact Or.inr hm

/-- and the mixin templates then leave IAM to the legacy block (no second definition) -/
theorem legacy_iam_defined_once (y : Yaml) (api : Api) (k : ClientKind) (m : String) (hm : m ∈ tmplIam) :
    (exposedMixins y api ⟨true⟩ k).count m = 1 := by
  have h1 : ∀ l : List String, (∀ x ∈ l, x ∉ tmplIam) → l.count m = 0 := fun l hl =>
    List.count_eq_zero.2 fun hx => hl m hx hm
  have hops : ∀ p : String → Bool, (tmplOperations.filter p).count m = 0 := fun p =>
    h1 _ fun x hx => by
      have := (List.mem_filter.1 hx).1
      revert this; simp only [tmplOperations, tmplIam, List.mem_cons, List.not_mem_nil, or_false]
      rintro (rfl | rfl | rfl | rfl | rfl) <;> decide
  have hloc : ∀ p : String → Bool, (tmplLocations.filter p).count m = 0 := fun p =>
    h1 _ fun x hx => by
      have := (List.mem_filter.1 hx).1
      revert this; simp only [tmplLocations, tmplIam, List.mem_cons, List.not_mem_nil, or_false]
      rintro (rfl | rfl) <;> decide
  have hiam : tmplIam.count m = 1 := by
    revert hm; simp only [tmplIam, List.mem_cons, List.not_mem_nil, or_false]
    rintro (rfl | rfl | rfl) <;> decide
  simp only [exposedMixins, Bool.not_true, Bool.false_and, Bool.false_eq_true, if_false, if_true, List.append_nil,
    List.count_append]
  split <;> split <;> simp [hops, hloc, hiam]

/-- the legacy sync methods call the canonical IAM path with the canonical types and a `resource` header -/
theorem legacy_sync_call (y : Yaml) (api : Api) (m : String) (hm : m ∈ tmplIam) :
    ∃ s, grpcCall y api ⟨true⟩ .sync m = .sent s ∧ s.path = "/google.iam.v1.IAMPolicy/" ++ m ∧
      s.routingField = "resource" ∧ some s.resp = canonicalResp m := by
  have hc : (exposedMixins y api ⟨true⟩ .sync).contains m = true :=
    List.contains_iff_mem.2 (legacy_iam_three_methods_both_clients y api .sync m hm)
  obtain ⟨s, hs, hp, hr, _⟩ := canonical_paths .iam m hm
  have hresp := grpc_response_canonical m (by
      revert hm; simp only [tmplIam, List.mem_cons, List.not_mem_nil, or_false]
      rintro (rfl | rfl | rfl) <;> decide)
  refine ⟨s, ?_, hp, hr, ?_⟩
  · unfold grpcCall
    simp [hs, List.contains_iff_mem.1 hc]
  · rw [← hresp, hs]; rfl

/-- **The legacy methods work on both clients, whatever the YAML**: the call goes out on the canonical
IAM path with the canonical types and a `resource` header — on the asyncio client too since the `fix:`
commit 0e4f131 (before it the asyncio methods raised KeyError unless the RPC was also a selected mixin). -/
theorem legacy_call_both_clients (y : Yaml) (api : Api) (k : ClientKind) (m : String) (hm : m ∈ tmplIam) :
    ∃ s, grpcCall y api ⟨true⟩ k m = .sent s ∧ s.path = "/google.iam.v1.IAMPolicy/" ++ m ∧
      s.routingField = "resource" ∧ some s.resp = canonicalResp m := by
  cases k
  · exact legacy_sync_call y api m hm
  · obtain ⟨s, hs, rest⟩ := legacy_sync_call y api m hm
    exact ⟨s, by simpa [grpcCall, sync_async_alike] using hs, rest⟩

/-- regression for 0e4f131: with the option alone (no IAM mixin in the YAML — the option's normal use)
the asyncio call is sent exactly as the sync one -/
theorem legacy_async_regression :
    ∀ m ∈ tmplIam, grpcCall ⟨[], []⟩ ⟨[["GetBook"]]⟩ ⟨true⟩ .async m = grpcCall ⟨[], []⟩ ⟨[["GetBook"]]⟩ ⟨true⟩ .sync m ∧
      grpcCall ⟨[], []⟩ ⟨[["GetBook"]]⟩ ⟨true⟩ .async m ≠ .absent := by
  decide

/-- the two clients behave alike on every mixin call -/
theorem grpc_call_sync_async_alike (y : Yaml) (api : Api) (o : Opts) (m : String) :
    grpcCall y api o .sync m = grpcCall y api o .async m := rfl

/-! ## REST -/

/-- what applying ONE binding must satisfy (google.api_core.path_template.transcode with a single
option; external, T2-compared): the verb is the binding's, and the transcoded request has a body
exactly when the binding names one. -/
def ApplySpec (ext : Ext) : Prop :=
  ∀ r req t, ext.apply r req = some t → t.method = r.method ∧ (t.body.isSome ↔ r.body.isSome)

/-- the executable reference used by the driver meets the spec -/
theorem refExt_spec : ApplySpec refExt := by
  intro r req t h
  simp only [refExt, refApply] at h
  split at h
  · cases h
  · split at h
    · simp only [Option.some.injEq] at h; subst h; simp [*]
    · simp only [Option.some.injEq] at h; subst h; simp [*]
    · split at h
      · cases h
      · simp only [Option.some.injEq] at h; subst h; simp [*]

/-- **Over REST the call uses a binding of the YAML rule selected for this RPC**: the verb is that
binding's `pattern` member, the path is that binding's URI template expanded from the request, the query
is what that binding leaves over, and a body, if one is sent, is that binding's body. -/
theorem rest_uses_rule_verb_path_body (ext : Ext) (nm : Names) (y : Yaml) (api : Api) (m : String)
    (req : Req) (v p : String) (body : Option Req) (q : Req)
    (h : restCall ext nm y api m req = .sent v p body q) :
    ∃ rule, dictGet (mixinApiMethods y api) m = some rule ∧
      ∃ b ∈ rule.bindings, ∃ r t, tryParse nm b = some r ∧ ext.apply r req = some t ∧
        r.method = b.verb ∧ r.uri = convertUri nm.fixPath b.uri ∧
        v = httpVerb t.method ∧ p = t.uri ∧ q = t.query ∧ (body = t.body ∨ body = none) := by
  unfold restCall at h
  rw [http_options_from_rule] at h
  cases hrule : dictGet (mixinApiMethods y api) m with
  | none => simp [hrule] at h
  | some rule =>
    refine ⟨rule, rfl, ?_⟩
    simp only [hrule, Option.map_some] at h
    cases hopts : rule.bindings.filterMap (tryParse nm) with
    | nil => simp [hopts] at h
    | cons r0 rs =>
      simp only [hopts] at h
      cases ht : transcode ext (r0 :: rs) req with
      | none => simp [ht] at h
      | some t =>
        simp only [ht] at h
        obtain ⟨r, hr, happ⟩ := List.exists_of_findSome?_eq_some ht
        rw [← hopts, List.mem_filterMap] at hr
        obtain ⟨b, hb, hparse⟩ := hr
        have hp := tryParse_verb_uri_body nm b r hparse
        refine ⟨b, hb, r, t, hparse, happ, hp.1, hp.2.1, ?_⟩
        cases hb0 : r0.body with
        | none =>
          simp only [hb0, RestOutcome.sent.injEq] at h
          exact ⟨h.1.symm, h.2.1.symm, h.2.2.2.symm, Or.inr h.2.2.1.symm⟩
        | some b0 =>
          simp only [hb0] at h
          cases htb : t.body with
          | none => simp [htb] at h
          | some tb =>
            simp only [htb, RestOutcome.sent.injEq] at h
            exact ⟨h.1.symm, h.2.1.symm, h.2.2.2.symm, Or.inl h.2.2.1.symm⟩

/-- **When the bindings of the rule agree on whether there is a body** (in particular when the rule
has a single binding) **the call carries exactly the selected binding's verb, path, body and query.** -/
theorem rest_body_of_uniform_bindings (ext : Ext) (hspec : ApplySpec ext) (nm : Names) (y : Yaml)
    (api : Api) (m : String) (req : Req) (rule : Rule) (r0 : HttpRule) (rs : List HttpRule) (t : Transcoded)
    (hrule : dictGet (mixinApiMethods y api) m = some rule)
    (hopts : rule.bindings.filterMap (tryParse nm) = r0 :: rs)
    (huni : ∀ r ∈ rs, r.body.isSome = r0.body.isSome)
    (ht : transcode ext (r0 :: rs) req = some t) :
    restCall ext nm y api m req = .sent (httpVerb t.method) t.uri t.body t.query := by
  obtain ⟨r, hr, happ⟩ := List.exists_of_findSome?_eq_some ht
  have hb : t.body.isSome = r0.body.isSome := by
    have h1 := (hspec r req t happ).2
    have h2 : r.body.isSome = r0.body.isSome := by
      rcases List.mem_cons.1 hr with rfl | h
      · rfl
      · exact huni r h
    rw [← h2]
    cases hh : r.body.isSome <;> cases ht' : t.body.isSome <;> simp_all
  unfold restCall
  rw [http_options_from_rule]
  simp only [hrule, Option.map_some, hopts, ht]
  cases hb0 : r0.body with
  | none =>
    cases htb : t.body with
    | none => rfl
    | some x => simp [hb0, htb] at hb
  | some b0 =>
    cases htb : t.body with
    | none => simp [hb0, htb] at hb
    | some x => rfl

example : ApplySpec refExt ∧ (∀ r ∈ ([] : List HttpRule), r.body.isSome = (some "*" : Option String).isSome) :=
  ⟨refExt_spec, by simp⟩

/-- whether a body is sent at all is decided by the FIRST parseable binding (`body_spec =
mixin_http_options[name][0].body` in the templates), not by the binding that was selected -/
theorem rest_body_sent_iff_first_binding_has_body (ext : Ext) (nm : Names) (y : Yaml) (api : Api)
    (m : String) (req : Req) (v p : String) (body : Option Req) (q : Req)
    (h : restCall ext nm y api m req = .sent v p body q) :
    ∃ r0 rs, dictGet (mixinHttpOptions nm y api) m = some (r0 :: rs) ∧ (body.isSome ↔ r0.body.isSome) := by
  unfold restCall at h
  cases hopts : dictGet (mixinHttpOptions nm y api) m with
  | none => simp [hopts] at h
  | some l =>
    cases l with
    | nil => simp [hopts] at h
    | cons r0 rs =>
      refine ⟨r0, rs, rfl, ?_⟩
      simp only [hopts] at h
      cases ht : transcode ext (r0 :: rs) req with
      | none => simp [ht] at h
      | some t =>
        simp only [ht] at h
        cases hb0 : r0.body with
        | none => simp only [hb0, RestOutcome.sent.injEq] at h; simp [← h.2.2.1]
        | some b0 =>
          simp only [hb0] at h
          cases htb : t.body with
          | none => simp [htb] at h
          | some tb => simp only [htb, RestOutcome.sent.injEq] at h; simp [← h.2.2.1]

def cexRestYaml : Yaml := ⟨["google.iam.v1.IAMPolicy"],
  [⟨"google.iam.v1.IAMPolicy.GetIamPolicy", ⟨"get", "/v1/{resource=books/*}:getIamPolicy", ""⟩,
      [⟨"post", "/v1/{resource=shelves/*}:getIamPolicy", "*"⟩]⟩,
   ⟨"google.iam.v1.IAMPolicy.SetIamPolicy", ⟨"post", "/v1/{resource=books/*}:setIamPolicy", "*"⟩,
      [⟨"get", "/v1/{resource=shelves/*}:setIamPolicy", ""⟩]⟩]⟩
def cexRestApi : Api := ⟨[["GetBook"]]⟩
def cexRestReq : Req := [("resource", "\"shelves/s1\""), ("options", "{\"requestedPolicyVersion\": 3}")]

/-- a rule whose first binding has no body and whose additional binding has `body: "*"`: the request
matching the additional binding goes out as `POST` with NO body — the non-path fields are lost
(reproduced on the emitted library: finding `rest-body-follows-first-binding`) … -/
theorem rest_mixed_bindings_drop_body_counterexample :
    restCall refExt ⟨[], id⟩ cexRestYaml cexRestApi "GetIamPolicy" cexRestReq
        = .sent "POST" "/v1/shelves/s1:getIamPolicy" none [] ∧
      (refApply ⟨"post", "/v1/{resource=shelves/*}:getIamPolicy", some "*"⟩ cexRestReq).map (·.body)
        = some (some [("options", "{\"requestedPolicyVersion\": 3}")]) := by
  decide

/-- … and the other way round (first binding with a body, selected binding without) the call raises `KeyError`. -/
theorem rest_mixed_bindings_keyerror_counterexample :
    restCall refExt ⟨[], id⟩ cexRestYaml cexRestApi "SetIamPolicy" cexRestReq = .keyError := by
  decide

/-! ## Non-vacuity: one concrete configuration meeting the hypotheses of the implications above -/

def exYaml : Yaml := ⟨["google.longrunning.Operations", "google.iam.v1.IAMPolicy"],
  [⟨"google.longrunning.Operations.GetOperation", ⟨"get", "/v1/{name=operations/*}", ""⟩, []⟩,
   ⟨"google.longrunning.Operations.WaitOperation", ⟨"post", "/v1/{name=operations/*}:wait", "*"⟩, []⟩,
   ⟨"google.iam.v1.IAMPolicy.GetIamPolicy", ⟨"get", "/v1/{resource=books/*}:getIamPolicy", ""⟩, []⟩,
   ⟨"google.cloud.location.Locations.GetLocation", ⟨"get", "/v1/{name=projects/*/locations/*}", ""⟩, []⟩]⟩
def exApi : Api := ⟨[["GetBook", "SetIamPolicy"]]⟩

-- `mixin_rule_from_yaml`, `rest_uses_rule_verb_path_body`, `rest_body_of_uniform_bindings`, `rest_body_sent_iff…`
example : dictGet (mixinApiMethods exYaml exApi) "WaitOperation"
    = some ⟨"google.longrunning.Operations.WaitOperation", ⟨"post", "/v1/{name=operations/*}:wait", "*"⟩, []⟩ := by decide
example : restCall refExt ⟨[], id⟩ exYaml exApi "WaitOperation" [("name", "\"operations/o1\""), ("timeout", "\"3s\"")]
    = .sent "POST" "/v1/operations/o1:wait" (some [("timeout", "\"3s\"")]) [] := by decide
example : restCall refExt ⟨[], id⟩ exYaml exApi "GetOperation" [("name", "\"operations/o1\"")]
    = .sent "GET" "/v1/operations/o1" none [] := by decide
-- `none_of_unlisted_api`: Locations has a rule but is not listed
example : ¬ Listed exYaml .locations ∧ "GetLocation" ∈ MixinApi.locations.methods ∧
    "GetLocation" ∉ keys (mixinApiMethods exYaml exApi) := by decide
-- `iam_yields_to_same_named` (the API's SetIamPolicy has no rule here, so GetIamPolicy stays: `mixin_exposed_iff_no_override`)
example : ["GetBook", "SetIamPolicy"] ∈ exApi.services ∧ "SetIamPolicy" ∈ MixinApi.iam.methods ∧
    "SetIamPolicy" ∉ keys (mixinApiMethods exYaml exApi) ∧ "GetIamPolicy" ∈ keys (mixinApiMethods exYaml exApi) := by decide
-- `grpc_call_sent_iff`, `exposed_iff_selected`
example : grpcCall exYaml exApi ⟨false⟩ .async "GetIamPolicy" = .sent ⟨"/google.iam.v1.IAMPolicy/GetIamPolicy",
    "google.iam.v1.GetIamPolicyRequest", .message "google.iam.v1.Policy", "resource"⟩ := by decide
-- `none_when_unlisted`
example : ∀ a, ¬ Listed ⟨["google.longrunning.operations"], exYaml.rules⟩ a := by
  intro a; cases a <;> decide
-- `legacy_call_both_clients`
example : "TestIamPermissions" ∈ tmplIam := by decide

end GapicModel.Props.C17
