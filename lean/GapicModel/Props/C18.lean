import GapicModel.Model.AutoPop
/-
C18 — auto-populated request ids obey AIP-4235 at generation time and at call time (DESIGN §7.18).
-/
namespace GapicModel.Props.C18
open GapicModel.Model.AutoPop

/-! ## The statement's conditions -/

/-- one `auto_populated_fields` entry meets AIP-4235: a top-level field of the request message that is
a singular string, not REQUIRED, annotated UUID4 -/
def FieldOk (inp : List Field) (f : String) : Prop :=
  ∃ fd, getField inp f = some fd ∧ (fd.isStr = true ∧ fd.repeated = false) ∧ fd.required = false ∧ fd.uuid4 = true

/-- one method-settings entry is fine: the method exists and, if any field is listed, it is unary and
every listed field is fine -/
def EntryOk (api : List Method) (s : Settings) : Prop :=
  ∃ m, getMethod api s.selector = some m ∧
    (s.fields ≠ [] → m.clientStreaming = false ∧ m.serverStreaming = false ∧ ∀ f ∈ s.fields, FieldOk m.input f)

/-- a single violation of the statement's conditions by the entry `s` -/
inductive Violation (api : List Method) (s : Settings) : Prop where
  | noMethod : getMethod api s.selector = none → Violation api s
  | streaming (m : Method) : getMethod api s.selector = some m → s.fields ≠ [] →
      (m.clientStreaming = true ∨ m.serverStreaming = true) → Violation api s
  | missing (m : Method) (f : String) : getMethod api s.selector = some m → f ∈ s.fields →
      getField m.input f = none → Violation api s            -- not a top-level field (every nested path)
  | nonString (m : Method) (f : String) (fd : Field) : getMethod api s.selector = some m → f ∈ s.fields →
      getField m.input f = some fd → (fd.isStr = false ∨ fd.repeated = true) → Violation api s   -- incl. `repeated string`
  | required (m : Method) (f : String) (fd : Field) : getMethod api s.selector = some m → f ∈ s.fields →
      getField m.input f = some fd → fd.required = true → Violation api s
  | unannotated (m : Method) (f : String) (fd : Field) : getMethod api s.selector = some m → f ∈ s.fields →
      getField m.input f = some fd → fd.uuid4 = false → Violation api s

section Aux

theorem assign_ne_nil {β : Type} (l : List (String × β)) (k : String) (v : β) : assign l k v ≠ [] := by
  cases l with
  | nil => simp [assign]
  | cons a l => obtain ⟨k', v'⟩ := a; simp only [assign]; split <;> simp

theorem lookup_assign_same {β : Type} (l : List (String × β)) (k : String) (v : β) :
    (assign l k v).lookup k = some v := by
  induction l with
  | nil => simp [assign]
  | cons a l ih =>
    obtain ⟨k', v'⟩ := a
    simp only [assign]
    split
    · simp [List.lookup]
    · rename_i h
      have : (k == k') = false := by simpa using fun e => h e.symm
      simp [List.lookup, this, ih]

theorem lookup_assign_other {β : Type} (l : List (String × β)) (k k' : String) (v : β) (h : k' ≠ k) :
    (assign l k v).lookup k' = l.lookup k' := by
  induction l with
  | nil =>
    have : (k' == k) = false := by simpa using h
    simp [assign, List.lookup, this]
  | cons a l ih =>
    obtain ⟨k'', v''⟩ := a
    simp only [assign]
    split
    · rename_i e
      subst e
      have : (k' == k'') = false := by simpa using h
      simp [List.lookup, this]
    · by_cases e : k' = k''
      · subst e; simp [List.lookup]
      · have : (k' == k'') = false := by simpa using e
        simp [List.lookup, this, ih]

theorem getField_name {inp : List Field} {f : String} {fd : Field} (h : getField inp f = some fd) : fd.name = f := by
  have := List.find?_some h
  simpa using this

theorem fieldErrs_nil_iff (inp : List Field) (f : String) : fieldErrs inp f = [] ↔ FieldOk inp f := by
  unfold fieldErrs FieldOk
  cases h : getField inp f with
  | none => simp
  | some fd =>
    simp only [Option.some.injEq, exists_eq_left']
    cases fd.isStr <;> cases fd.repeated <;> cases fd.required <;> cases fd.uuid4 <;> simp

theorem classify_none_iff (api : List Method) (s : Settings) : classify api s = none ↔ EntryOk api s := by
  unfold classify EntryOk
  cases h : getMethod api s.selector with
  | none => simp
  | some m =>
    simp only [Option.some.injEq, exists_eq_left']
    by_cases hf : s.fields = []
    · simp [hf]
    · have hf' : s.fields.isEmpty = false := by simpa [List.isEmpty_iff] using hf
      simp only [hf', Bool.false_eq_true, if_false, ne_eq, hf, not_false_eq_true, forall_const]
      cases hc : m.clientStreaming <;> cases hs : m.serverStreaming <;>
        simp [List.isEmpty_iff, List.flatMap_eq_nil_iff, fieldErrs_nil_iff]

theorem violation_not_ok {api : List Method} {s : Settings} (hv : Violation api s) : ¬ EntryOk api s := by
  rintro ⟨m, hm, hok⟩
  cases hv with
  | noMethod h => simp [h] at hm
  | streaming m' h hne hst =>
    rw [h] at hm; cases hm
    have := hok hne
    rcases hst with h1 | h1 <;> simp [h1] at this
  | missing m' f h hf hg =>
    rw [h] at hm; cases hm
    obtain ⟨_, _, hall⟩ := hok (List.ne_nil_of_mem hf)
    obtain ⟨fd, hfd, _⟩ := hall f hf
    simp [hg] at hfd
  | nonString m' f fd h hf hg hb =>
    rw [h] at hm; cases hm
    obtain ⟨_, _, hall⟩ := hok (List.ne_nil_of_mem hf)
    obtain ⟨fd', hfd, h1, _, _⟩ := hall f hf
    rw [hg] at hfd; cases hfd
    rcases hb with hb | hb
    · simp [hb] at h1
    · simp [hb] at h1
  | required m' f fd h hf hg hb =>
    rw [h] at hm; cases hm
    obtain ⟨_, _, hall⟩ := hok (List.ne_nil_of_mem hf)
    obtain ⟨fd', hfd, _, h1, _⟩ := hall f hf
    rw [hg] at hfd; cases hfd; simp [hb] at h1
  | unannotated m' f fd h hf hg hb =>
    rw [h] at hm; cases hm
    obtain ⟨_, _, hall⟩ := hok (List.ne_nil_of_mem hf)
    obtain ⟨fd', hfd, _, _, h1⟩ := hall f hf
    rw [hg] at hfd; cases hfd; simp [hb] at h1

/-- and conversely: an entry that is not fine commits one of the listed violations -/
theorem not_ok_violation {api : List Method} {s : Settings} (h : ¬ EntryOk api s) : Violation api s := by
  cases hm : getMethod api s.selector with
  | none => exact .noMethod hm
  | some m =>
    by_cases hne : s.fields = []
    · exact absurd ⟨m, hm, fun h' => absurd hne h'⟩ h
    · by_cases hst : m.clientStreaming = true ∨ m.serverStreaming = true
      · exact .streaming m hm hne hst
      · have hcs : m.clientStreaming = false := by cases hc : m.clientStreaming <;> simp_all
        have hss : m.serverStreaming = false := by cases hc : m.serverStreaming <;> simp_all
        have : ¬ ∀ f ∈ s.fields, FieldOk m.input f := fun hall => h ⟨m, hm, fun _ => ⟨hcs, hss, hall⟩⟩
        simp only [Classical.not_forall] at this
        obtain ⟨f, hf, hbad⟩ := this
        cases hg : getField m.input f with
        | none => exact .missing m f hm hf hg
        | some fd =>
          by_cases h1 : fd.isStr = false ∨ fd.repeated = true
          · exact .nonString m f fd hm hf hg h1
          · by_cases h2 : fd.required = true
            · exact .required m f fd hm hf hg h2
            · by_cases h3 : fd.uuid4 = false
              · exact .unannotated m f fd hm hf hg h3
              · exact absurd ⟨fd, hg, by simpa using h1, by simpa using h2, by simpa using h3⟩ hbad

theorem step_dup (api : List Method) (seen : List String) (errs : Errors) (s : Settings) (h : s.selector ∈ seen) :
    step api (seen, errs) s = (seen, setErr errs s.selector .duplicate) := by simp [step, h]

theorem step_ok (api : List Method) (seen : List String) (errs : Errors) (s : Settings) (h : s.selector ∉ seen)
    (hc : classify api s = none) : step api (seen, errs) s = (s.selector :: seen, errs) := by simp [step, h, hc]

theorem step_err (api : List Method) (seen : List String) (errs : Errors) (s : Settings) (e : Err) (h : s.selector ∉ seen)
    (hc : classify api s = some e) : step api (seen, errs) s = (s.selector :: seen, setErr errs s.selector e) := by
  simp [step, h, hc]

/-- the loop invariant behind `accepted_iff` -/
def AllOk (api : List Method) : List String → List Settings → Prop
  | _, [] => True
  | seen, s :: ss => s.selector ∉ seen ∧ classify api s = none ∧ AllOk api (s.selector :: seen) ss

theorem foldl_errs_nil (api : List Method) : ∀ (ss : List Settings) (seen : List String) (errs : Errors),
    (ss.foldl (step api) (seen, errs)).2 = [] ↔ errs = [] ∧ AllOk api seen ss := by
  intro ss
  induction ss with
  | nil => intro seen errs; simp [AllOk]
  | cons s ss ih =>
    intro seen errs
    simp only [List.foldl_cons, AllOk]
    by_cases hin : s.selector ∈ seen
    · rw [step_dup api seen errs s hin, ih]
      simp [setErr, assign_ne_nil, hin]
    · cases hc : classify api s with
      | none => rw [step_ok api seen errs s hin hc, ih]; simp [hin]
      | some e => rw [step_err api seen errs s e hin hc, ih]; simp [setErr, assign_ne_nil]

theorem allOk_iff (api : List Method) : ∀ (ss : List Settings) (seen : List String),
    AllOk api seen ss ↔ (∀ s ∈ ss, s.selector ∉ seen) ∧ (ss.map (·.selector)).Nodup ∧ ∀ s ∈ ss, classify api s = none := by
  intro ss
  induction ss with
  | nil => intro seen; simp [AllOk]
  | cons s ss ih =>
    intro seen
    simp only [AllOk, ih, List.mem_cons, List.map_cons, List.nodup_cons, List.mem_map, forall_eq_or_imp, not_or]
    constructor
    · rintro ⟨h1, h2, h3, h4, h5⟩
      refine ⟨⟨h1, fun a ha => (h3 a ha).2⟩, ⟨?_, h4⟩, h2, h5⟩
      rintro ⟨a, ha, e⟩
      exact (h3 a ha).1 e
    · rintro ⟨⟨h1, h2⟩, ⟨h3, h4⟩, h5, h6⟩
      exact ⟨h1, h5, fun a ha => ⟨fun e => h3 ⟨a, ha, e⟩, h2 a ha⟩, h4, h6⟩

/-- what the error dict holds for a selector, given whether it was seen before, what the dict held, and
the entries with that selector that are still to come -/
def expect (api : List Method) (inSeen : Bool) (cur : Option Err) : List Settings → Option Err
  | [] => cur
  | s :: rest =>
    if inSeen = true ∨ rest ≠ [] then some .duplicate
    else match classify api s with
      | some e => some e
      | none => cur

theorem foldl_lookup (api : List Method) (k : String) : ∀ (ss : List Settings) (seen : List String) (errs : Errors),
    ((ss.foldl (step api) (seen, errs)).2).lookup k
      = expect api (decide (k ∈ seen)) (errs.lookup k) (ss.filter (fun s => s.selector == k)) := by
  intro ss
  induction ss with
  | nil => intro seen errs; simp [expect]
  | cons s ss ih =>
    intro seen errs
    simp only [List.foldl_cons]
    by_cases hk : s.selector = k
    · have hf : (s :: ss).filter (fun s => s.selector == k) = s :: ss.filter (fun s => s.selector == k) := by
        simp [hk]
      rw [hf]
      by_cases hin : s.selector ∈ seen
      · rw [step_dup api seen errs s hin, ih]
        have hin' : k ∈ seen := hk ▸ hin
        cases hr : ss.filter (fun s => s.selector == k) with
        | nil => simp [expect, hk, setErr, lookup_assign_same, hin']
        | cons a r => simp [expect, hin']
      · have hin' : k ∉ seen := hk ▸ hin
        cases hc : classify api s with
        | none =>
          rw [step_ok api seen errs s hin hc, ih]
          cases hr : ss.filter (fun s => s.selector == k) with
          | nil => simp [expect, hin', hc]
          | cons a r => simp [expect, hk]
        | some e =>
          rw [step_err api seen errs s e hin hc, ih]
          cases hr : ss.filter (fun s => s.selector == k) with
          | nil => simp [expect, hin', hc, hk, setErr, lookup_assign_same]
          | cons a r => simp [expect, hk]
    · have hf : (s :: ss).filter (fun s => s.selector == k) = ss.filter (fun s => s.selector == k) := by
        simp [hk]
      rw [hf]
      have hk' : k ≠ s.selector := fun e => hk e.symm
      by_cases hin : s.selector ∈ seen
      · rw [step_dup api seen errs s hin, ih]
        simp [setErr, lookup_assign_other _ _ _ _ hk']
      · cases hc : classify api s with
        | none =>
          rw [step_ok api seen errs s hin hc, ih]
          simp [hk']
        | some e =>
          rw [step_err api seen errs s e hin hc, ih]
          simp [setErr, lookup_assign_other _ _ _ _ hk', hk']

theorem filter_selector_of_nodup : ∀ (ss : List Settings) (s : Settings),
    (ss.map (·.selector)).Nodup → s ∈ ss → ss.filter (fun t => t.selector == s.selector) = [s] := by
  intro ss
  induction ss with
  | nil => intro s _ h; simp at h
  | cons a ss ih =>
    intro s hnd hs
    simp only [List.map_cons, List.nodup_cons, List.mem_map, not_exists, not_and] at hnd
    rcases List.mem_cons.mp hs with e | hs'
    · subst e
      have : ss.filter (fun t => t.selector == s.selector) = [] := by
        rw [List.filter_eq_nil_iff]
        intro t ht
        simpa using hnd.1 t ht
      simp [this]
    · have hne : a.selector ≠ s.selector := fun e => hnd.1 s hs' e.symm
      simp [hne, ih s hnd.2 hs']

end Aux

/-! ## Generation time: the validation -/

/-- **The settings are accepted exactly when no selector occurs twice and every entry meets the
statement's conditions** (method exists; if fields are listed: unary, and each listed field is a
top-level, non-required, singular string annotated UUID4; a `repeated string` counts as "not a string"
since the `fix:` commit 239cd3d — see `repeated_string_rejected`). -/
theorem accepted_iff (api : List Method) (ss : List Settings) :
    validate api ss = [] ↔ (ss.map (·.selector)).Nodup ∧ ∀ s ∈ ss, EntryOk api s := by
  unfold validate
  rw [foldl_errs_nil, allOk_iff]
  simp [classify_none_iff]

theorem accepted_eq_true_iff (api : List Method) (ss : List Settings) :
    accepted api ss = true ↔ (ss.map (·.selector)).Nodup ∧ ∀ s ∈ ss, EntryOk api s := by
  unfold accepted
  rw [List.isEmpty_iff, accepted_iff]

/-- What is reported for a selector: nothing if no entry names it, the entry's own verdict if exactly
one does, "Duplicate selector" (replacing whatever the first occurrence produced) otherwise. -/
theorem validate_lookup (api : List Method) (ss : List Settings) (k : String) :
    (validate api ss).lookup k =
      match ss.filter (fun s => s.selector == k) with
      | [] => none
      | [s] => classify api s
      | _ :: _ :: _ => some .duplicate := by
  unfold validate
  rw [foldl_lookup]
  cases h : ss.filter (fun s => s.selector == k) with
  | nil => simp [expect]
  | cons a r =>
    cases r with
    | nil => cases hc : classify api a <;> simp [expect, hc]
    | cons b r => simp [expect]

/-- **Each single violation is rejected**: an entry that breaks any one of the conditions (unknown
method; streaming method; a listed field that is missing/nested, not a string, REQUIRED, or not
annotated UUID4) makes the whole list fail, whatever the other entries are. -/
theorem each_single_violation_rejected (api : List Method) (ss : List Settings) (s : Settings)
    (hs : s ∈ ss) (hv : Violation api s) : validate api ss ≠ [] := by
  intro h
  exact violation_not_ok hv (((accepted_iff api ss).mp h).2 s hs)

/-- the list of violations is complete: a rejected duplicate-free list contains an entry with one of them -/
theorem rejected_has_violation (api : List Method) (ss : List Settings)
    (hnd : (ss.map (·.selector)).Nodup) (h : validate api ss ≠ []) : ∃ s ∈ ss, Violation api s := by
  have : ¬ ∀ s ∈ ss, EntryOk api s := fun hall => h ((accepted_iff api ss).mpr ⟨hnd, hall⟩)
  simp only [Classical.not_forall] at this
  obtain ⟨s, hs, hbad⟩ := this
  exact ⟨s, hs, not_ok_violation hbad⟩

/-- …and it is reported under the entry's own selector with the class the code's order gives it
(when the selector occurs once). -/
theorem violation_reported (api : List Method) (ss : List Settings) (s : Settings)
    (hnd : (ss.map (·.selector)).Nodup) (hs : s ∈ ss) :
    (validate api ss).lookup s.selector = classify api s := by
  rw [validate_lookup, filter_selector_of_nodup ss s hnd hs]

/-- the error class of each violation (the code's order: not found → streaming → per field) -/
theorem classify_no_method (api : List Method) (s : Settings) (h : getMethod api s.selector = none) :
    classify api s = some .methodNotFound := by
  simp [classify, h]

theorem classify_streaming (api : List Method) (s : Settings) (m : Method) (h : getMethod api s.selector = some m)
    (hne : s.fields ≠ []) (hst : m.clientStreaming = true ∨ m.serverStreaming = true) :
    classify api s = some .notUnary := by
  have hf' : s.fields.isEmpty = false := by simpa [List.isEmpty_iff] using hne
  rcases hst with h1 | h1 <;> simp [classify, h, hf', h1]

/-- on a unary method the per-field messages are exactly the failed conditions, field by field -/
theorem classify_fields (api : List Method) (s : Settings) (m : Method) (h : getMethod api s.selector = some m)
    (hu : m.clientStreaming = false ∧ m.serverStreaming = false) (hbad : ∃ f ∈ s.fields, ¬ FieldOk m.input f) :
    classify api s = some (.fields (s.fields.flatMap (fieldErrs m.input))) := by
  obtain ⟨f, hf, hb⟩ := hbad
  have hf' : s.fields.isEmpty = false := by simpa [List.isEmpty_iff] using List.ne_nil_of_mem hf
  have hne : (s.fields.flatMap (fieldErrs m.input)).isEmpty = false := by
    rw [Bool.eq_false_iff, ne_eq, List.isEmpty_iff, List.flatMap_eq_nil_iff]
    intro hall
    exact hb ((fieldErrs_nil_iff _ _).mp (hall f hf))
  simp [classify, h, hf', hu.1, hu.2, hne]

theorem fieldErrs_missing (inp : List Field) (f : String) (h : getField inp f = none) :
    fieldErrs inp f = [.notFound f] := by
  simp [fieldErrs, h]

theorem fieldErrs_found (inp : List Field) (f : String) (fd : Field) (h : getField inp f = some fd) :
    (FieldErr.notString f ∈ fieldErrs inp f ↔ (fd.isStr = false ∨ fd.repeated = true)) ∧
    (FieldErr.isRequired f ∈ fieldErrs inp f ↔ fd.required = true) ∧
    (FieldErr.notUuid4 f ∈ fieldErrs inp f ↔ fd.uuid4 = false) := by
  simp only [fieldErrs, h]
  cases fd.isStr <;> cases fd.repeated <;> cases fd.required <;> cases fd.uuid4 <;> simp

/-- a nested path can never be accepted: proto field names contain no dot, the lookup is by whole string -/
theorem nested_path_not_found (inp : List Field) (f : String)
    (hnames : ∀ fd ∈ inp, '.' ∉ fd.name.toList) (hf : '.' ∈ f.toList) : getField inp f = none := by
  unfold getField
  rw [List.find?_eq_none]
  intro fd hfd
  simp only [beq_iff_eq]
  intro e
  exact hnames fd hfd (e ▸ hf)

/-- **Duplicate selectors are rejected**, and the duplicate is what is reported for that selector. -/
theorem duplicates_rejected (api : List Method) (ss : List Settings) (h : ¬ (ss.map (·.selector)).Nodup) :
    validate api ss ≠ [] := fun he => h ((accepted_iff api ss).mp he).1

theorem duplicate_reported (api : List Method) (ss : List Settings) (k : String)
    (h : 2 ≤ (ss.filter (fun s => s.selector == k)).length) :
    (validate api ss).lookup k = some .duplicate := by
  rw [validate_lookup]
  cases hf : ss.filter (fun s => s.selector == k) with
  | nil => simp [hf] at h
  | cons a r =>
    cases r with
    | nil => simp [hf] at h
    | cons b r => rfl

/-! ### non-vacuity and the point where the code departs from the statement -/

def fId : Field := ⟨"request_id", true, false, true, false, false⟩
def fOpt : Field := ⟨"opt_id", true, false, true, true, false⟩
def fName : Field := ⟨"name", true, true, false, false, false⟩
def fTags : Field := ⟨"tags", true, false, true, false, true⟩      -- `repeated string tags = 4 [UUID4]`
def mCreate : Method := ⟨"p.S.Create", false, false, [fName, fId, fOpt, fTags]⟩
def mWatch : Method := ⟨"p.S.Watch", false, true, [fName, fId]⟩
def demoApi : List Method := [mCreate, mWatch]

example : validate demoApi [⟨"p.S.Create", ["request_id", "opt_id"]⟩, ⟨"p.S.Watch", []⟩] = [] := by decide
example : ∃ s ∈ [(⟨"p.S.Create", ["name"]⟩ : Settings)], Violation demoApi s :=
  ⟨_, List.mem_singleton.mpr rfl, .required mCreate "name" fName (by decide) (by decide) (by decide) (by decide)⟩
example : validate demoApi [⟨"p.S.Create", ["name", "a.b"]⟩] =
    [("p.S.Create", .fields [.isRequired "name", .notUuid4 "name", .notFound "a.b"])] := by decide
example : validate demoApi [⟨"p.S.Watch", ["request_id"]⟩, ⟨"p.S.Nope", []⟩] =
    [("p.S.Watch", .notUnary), ("p.S.Nope", .methodNotFound)] := by decide
example : validate demoApi [⟨"p.S.Create", ["name"]⟩, ⟨"p.S.Watch", []⟩, ⟨"p.S.Create", []⟩] =
    [("p.S.Create", .duplicate)] := by decide
example : ¬ (([⟨"p.S.Create", []⟩, ⟨"p.S.Create", []⟩] : List Settings).map (·.selector)).Nodup := by decide

/-- Regression for the repaired defect (`fix:` 239cd3d): a `repeated string … [format = UUID4]` field is not
a string in the sense of AIP-4235; listing it rejects the settings with "not of type string", whatever its
other attributes are. (Before the repair the label was ignored and such a field was accepted.) -/
theorem repeated_string_rejected (api : List Method) (ss : List Settings) (s : Settings) (m : Method)
    (f : String) (fd : Field) (hs : s ∈ ss) (hm : getMethod api s.selector = some m) (hf : f ∈ s.fields)
    (hfd : getField m.input f = some fd) (hr : fd.repeated = true) :
    validate api ss ≠ [] ∧ FieldErr.notString f ∈ fieldErrs m.input f :=
  ⟨each_single_violation_rejected api ss s hs (.nonString m f fd hm hf hfd (Or.inr hr)),
   ((fieldErrs_found m.input f fd hfd).1).mpr (Or.inr hr)⟩

example : fTags.repeated = true ∧ getField mCreate.input "tags" = some fTags ∧
    validate demoApi [⟨"p.S.Create", ["tags"]⟩] = [("p.S.Create", .fields [.notString "tags"])] := by decide

/-! ## Generation time: which views of the API run the validation -/

/-- `view` is a part of `api`: whatever `view.all_methods.get` finds, `api.all_methods.get` finds too (a sub-package
view holds the services of its own protos only) -/
def SubApi (view api : List Method) : Prop := ∀ sel m, getMethod view sel = some m → getMethod api sel = some m

theorem entryOk_of_subApi {view api : List Method} (h : SubApi view api) {s : Settings} (hs : EntryOk view s) :
    EntryOk api s := by
  obtain ⟨m, hm, hok⟩ := hs
  exact ⟨m, h _ _ hm, hok⟩

/-- a view's own methods never accept what the whole API rejects (why validating against the view alone, as the code
did before cb5c413, was too strict but never too lax) -/
theorem view_accepts_implies_api_accepts {view api : List Method} (h : SubApi view api) (ss : List Settings)
    (hv : validate view ss = []) : validate api ss = [] := by
  rw [accepted_iff] at hv ⊢
  exact ⟨hv.1, fun s hs => entryOk_of_subApi h (hv.2 s hs)⟩

/-- as soon as one view renders a service, the outcome of the generation IS the validation against the whole API
(every view validates against `dataclasses.replace(self, subpackage_view=())`, fix cb5c413) -/
theorem generate_eq_validate (api : List Method) (views : List (List Method)) (ss : List Settings) (hne : views ≠ []) :
    generate api views ss = validate api ss := by
  induction views with
  | nil => exact absurd rfl hne
  | cons v vs ih =>
    simp only [generate]
    cases hv : validate api ss with
    | cons e es => simp
    | nil =>
      cases vs with
      | nil => simp [generate]
      | cons w ws => simpa [hv] using ih (by simp)

/-- generation goes through iff no view renders a service (nothing reads the settings) or the whole API accepts the list -/
theorem generate_nil_iff (api : List Method) (views : List (List Method)) (ss : List Settings) :
    generate api views ss = [] ↔ views = [] ∨ validate api ss = [] := by
  cases views with
  | nil => simp [generate]
  | cons v vs => simp [generate_eq_validate api (v :: vs) ss (by simp)]

/-- an API without sub-packages: the one view is the API, generation = the validation (everything above applies) -/
theorem generate_single_view (api : List Method) (ss : List Settings) : generate api [api] ss = validate api ss :=
  generate_eq_validate api [api] ss (by simp)

/-- **Generation fails unless the settings are valid, wherever the services live**: as soon as one view of the API
renders a service, a list that repeats a selector or holds an entry violating the statement's conditions aborts
the generation. -/
theorem generation_rejects_invalid (api : List Method) (views : List (List Method)) (ss : List Settings)
    (hne : views ≠ []) (hbad : validate api ss ≠ []) : generate api views ss ≠ [] := by
  rw [generate_eq_validate api views ss hne]
  exact hbad

theorem generation_rejects_each_single_violation (api : List Method) (views : List (List Method)) (ss : List Settings)
    (s : Settings) (hne : views ≠ []) (hs : s ∈ ss) (hv : Violation api s) :
    generate api views ss ≠ [] :=
  generation_rejects_invalid api views ss hne (each_single_violation_rejected api ss s hs hv)

theorem generation_rejects_duplicates (api : List Method) (views : List (List Method)) (ss : List Settings)
    (hne : views ≠ []) (h : ¬ (ss.map (·.selector)).Nodup) :
    generate api views ss ≠ [] :=
  generation_rejects_invalid api views ss hne (fun hv => h ((accepted_iff api ss).mp hv).1)

/-- **…and goes through when they are**, whichever views render services (the direction that failed before cb5c413:
see `valid_settings_with_subpackage_view_accepted`) -/
theorem generation_accepts_valid (api : List Method) (views : List (List Method)) (ss : List Settings)
    (hnd : (ss.map (·.selector)).Nodup) (hok : ∀ s ∈ ss, EntryOk api s) : generate api views ss = [] :=
  (generate_nil_iff api views ss).mpr (Or.inr ((accepted_iff api ss).mpr ⟨hnd, hok⟩))

/-- the views the driver builds (`viewOf`: the API's methods whose selector the view lists) are parts of the API -/
theorem viewOf_subApi (api : List Method) (sels : List String) : SubApi (viewOf api sels) api := by
  intro sel m h
  unfold getMethod viewOf at *
  induction api with
  | nil => simp at h
  | cons a rest ih =>
    simp only [List.filter_cons] at h
    by_cases hc : sels.contains a.selector = true
    · simp only [hc, if_true, List.find?_cons] at h ⊢
      by_cases ha : (a.selector == sel) = true
      · simpa [ha] using h
      · simp only [ha] at h ⊢
        exact ih h
    · simp only [hc] at h
      simp only [List.find?_cons]
      by_cases ha : (a.selector == sel) = true
      · -- `a` is filtered out of the view but the view still finds `sel`: then the view lists `sel`, i.e. `a.selector`
        exfalso
        have := List.find?_some h
        have hm := List.mem_filter.mp (List.mem_of_find?_eq_some h)
        have e1 : a.selector = sel := by simpa using ha
        have e2 : m.selector = sel := by simpa using this
        rw [e1, ← e2] at hc
        exact hc hm.2
      · simp only [ha]
        exact ih h

/-! ### Selective GAPIC generation in the same service yaml -/

theorem prune_subApi (allow : List String) (internal : Bool) (api : List Method) : SubApi (prune allow internal api) api := by
  unfold prune
  split
  · intro sel m h; exact h
  · exact viewOf_subApi api allow

/-- **Selective generation never waives a condition**: whatever the allow-list and the mode, a list that the declared
API rejects (repeated selector, unknown method, streaming method, bad field) aborts the generation of the pruned API. -/
theorem selective_generation_rejects_invalid (api : List Method) (allow : List String) (internal : Bool)
    (views : List (List Method)) (ss : List Settings) (hne : views ≠ []) (hbad : validate api ss ≠ []) :
    generate (prune allow internal api) views ss ≠ [] :=
  generation_rejects_invalid _ views ss hne
    (fun h => hbad (view_accepts_implies_api_accepts (prune_subApi allow internal api) ss h))

/-- in particular a selector that names no method of the declared API ("Method was not found."), on or off the allow-list -/
theorem selective_generation_rejects_unknown_selector (api : List Method) (allow : List String) (internal : Bool)
    (views : List (List Method)) (ss : List Settings) (s : Settings) (hne : views ≠ []) (hs : s ∈ ss)
    (hno : getMethod api s.selector = none) : generate (prune allow internal api) views ss ≠ [] :=
  selective_generation_rejects_invalid api allow internal views ss hne
    (each_single_violation_rejected api ss s hs (.noMethod hno))

/-- `generate_omitted_as_internal` (or an empty allow-list): the API keeps all its methods — settings of an omitted
(internal) method are validated and honoured like any other -/
theorem prune_internal (allow : List String) (api : List Method) : prune allow true api = api := by
  simp [prune]

theorem prune_no_allow_list (internal : Bool) (api : List Method) : prune [] internal api = api := by
  simp [prune]

/-- omit mode, what the code does: an entry for a declared method that is not on the (non-empty) allow-list is
reported as "Method was not found." and aborts the generation (the method is no method of the generated API) -/
theorem omitted_method_settings_rejected (api : List Method) (allow : List String) (views : List (List Method))
    (ss : List Settings) (s : Settings) (hne : views ≠ []) (hal : allow ≠ []) (hs : s ∈ ss)
    (hom : allow.contains s.selector = false) : generate (prune allow false api) views ss ≠ [] := by
  apply generation_rejects_invalid _ views ss hne
  apply each_single_violation_rejected _ ss s hs
  apply Violation.noMethod
  have he : allow.isEmpty = false := by simpa [List.isEmpty_iff] using hal
  simp only [prune, he, Bool.or_self, Bool.false_eq_true, if_false]
  unfold getMethod viewOf
  cases h : List.find? (fun m => m.selector == s.selector) (List.filter (fun m => allow.contains m.selector) api) with
  | none => rfl
  | some m =>
    exfalso
    have h1 := List.find?_some h
    have h2 := (List.mem_filter.mp (List.mem_of_find?_eq_some h)).2
    have e : m.selector = s.selector := by simpa using h1
    rw [e, hom] at h2
    exact Bool.false_ne_true h2

example : prune ["p.S.Create"] false demoApi = [mCreate] ∧ prune ["p.S.Create"] true demoApi = demoApi := by decide
example : generate (prune ["p.S.Create"] false demoApi) [prune ["p.S.Create"] false demoApi] [⟨"p.S.Createe", ["request_id"]⟩] =
    [("p.S.Createe", .methodNotFound)] ∧
    generate (prune ["p.S.Create"] true demoApi) [demoApi] [⟨"no.such.Api.Method", []⟩] = [("no.such.Api.Method", .methodNotFound)] ∧
    generate (prune ["p.S.Create"] false demoApi) [[mCreate]] [⟨"p.S.Watch", []⟩] = [("p.S.Watch", .methodNotFound)] ∧
    generate (prune ["p.S.Create"] true demoApi) [demoApi] [⟨"p.S.Watch", []⟩, ⟨"p.S.Create", ["request_id"]⟩] = [] := by decide
example : getMethod demoApi "p.S.Createe" = none ∧ (["p.S.Create"] : List String) ≠ [] ∧
    (["p.S.Create"] : List String).contains "p.S.Watch" = false := by decide

/-! ### Request messages declared in a dependency file (not among `API.messages`) -/

/-- what is reported for the selector of an entry that violates a condition: something (its own class, or "Duplicate
selector") -/
theorem violation_named (api : List Method) (ss : List Settings) (s : Settings) (hs : s ∈ ss) (hv : Violation api s) :
    (validate api ss).lookup s.selector ≠ none := by
  rw [validate_lookup]
  have hmem : s ∈ ss.filter (fun x => x.selector == s.selector) := by simp [List.mem_filter, hs]
  cases h : ss.filter (fun x => x.selector == s.selector) with
  | nil => rw [h] at hmem; simp at hmem
  | cons a r =>
    cases r with
    | nil =>
      rw [h] at hmem
      have : s = a := by simpa using hmem
      subst this
      simp only
      intro hc
      exact violation_not_ok hv ((classify_none_iff api s).mp hc)
    | cons b r => simp

/-- **An invalid entry on a request message that is declared in a dependency file is rejected like any other, with a
settings error that names it** (the model's `Method.input` is the method's own request message, wherever it is declared:
`method_descriptor.input`, f83c180; a `self.messages.get(...)`/`continue` in its place would skip every per-field check) -/
theorem hidden_request_never_accepted (api : List Method) (views : List (List Method)) (ss : List Settings) (s : Settings)
    (hne : views ≠ []) (hs : s ∈ ss) (hv : Violation api s) :
    generate api views ss ≠ [] ∧ (generate api views ss).lookup s.selector ≠ none := by
  rw [generate_eq_validate api views ss hne]
  exact ⟨each_single_violation_rejected api ss s hs hv, violation_named api ss s hs hv⟩

/-- regression (repaired by f83c180): a list that meets every condition used to be refused with a bare `KeyError` when
the request message (here the one of `p.S.Share`) is declared in a dependency file; it generates now, and an invalid
entry on the same request is reported as such -/
def mShared : Method := ⟨"p.S.Share", false, false, [fName, fId]⟩

theorem valid_entry_on_hidden_request_accepted :
    (∀ s ∈ ([⟨"p.S.Share", ["request_id"]⟩] : List Settings), EntryOk [mCreate, mShared] s) ∧
    generate [mCreate, mShared] [[mCreate, mShared]] [⟨"p.S.Share", ["request_id"]⟩] = [] ∧
    generate [mCreate, mShared] [[mCreate, mShared]] [⟨"p.S.Create", ["request_id"]⟩, ⟨"p.S.Share", ["name", "inner.id"]⟩] =
      [("p.S.Share", .fields [.isRequired "name", .notUuid4 "name", .notFound "inner.id"])] := by
  refine ⟨fun s hs => ?_, by decide, by decide⟩
  rw [List.mem_singleton.mp hs]
  exact (classify_none_iff _ _).mp (by decide)

example : ([[mCreate, mShared]] : List (List Method)) ≠ [] ∧
    (⟨"p.S.Share", ["name"]⟩ : Settings) ∈ [(⟨"p.S.Share", ["name"]⟩ : Settings)] := by decide
example : Violation [mCreate, mShared] ⟨"p.S.Share", ["name"]⟩ :=
  .required mShared "name" fName (by decide) (by decide) (by decide) (by decide)

/-- regression (repaired by cb5c413): a list that is valid for the API used to be rejected when a view that does not
hold the named service validated it ("Method was not found.") — services in sub-packages; it is accepted now. -/
def mAux : Method := ⟨"p.sub.T.Make", false, false, [fName, fId]⟩
def subApi : List Method := [mCreate, mWatch, mAux]

theorem valid_settings_with_subpackage_view_accepted :
    validate subApi [⟨"p.S.Create", ["request_id"]⟩] = [] ∧
    validate (viewOf subApi ["p.sub.T.Make"]) [⟨"p.S.Create", ["request_id"]⟩] = [("p.S.Create", .methodNotFound)] ∧
    generate subApi [viewOf subApi ["p.sub.T.Make"], subApi] [⟨"p.S.Create", ["request_id"]⟩] = [] := by
  decide

example : ([viewOf subApi ["p.sub.T.Make"], subApi] : List (List Method)) ≠ [] ∧
    validate subApi [⟨"p.sub.T.Make", ["name"]⟩] ≠ [] ∧
    generate subApi [viewOf subApi ["p.sub.T.Make"]] [⟨"p.sub.T.Make", ["name"]⟩] ≠ [] := by decide
example : SubApi (viewOf subApi ["p.sub.T.Make"]) subApi := viewOf_subApi _ _
example : ∃ s ∈ [(⟨"p.sub.T.Make", ["name"]⟩ : Settings)], Violation subApi s :=
  ⟨_, List.mem_singleton.mpr rfl, .required mAux "name" fName (by decide) (by decide) (by decide) (by decide)⟩
example : ¬ (([⟨"p.sub.T.Make", []⟩, ⟨"p.sub.T.Make", []⟩] : List Settings).map (·.selector)).Nodup := by decide
example : (([⟨"p.S.Create", ["request_id"]⟩] : List Settings).map (·.selector)).Nodup ∧
    ∀ s ∈ ([⟨"p.S.Create", ["request_id"]⟩] : List Settings), EntryOk subApi s := by
  refine ⟨by decide, fun s hs => ?_⟩
  rw [List.mem_singleton.mp hs]
  exact (classify_none_iff _ _).mp (by decide)

/-! ## Call time: the population macro -/

section AuxPop

theorem needsId_iff (fd : Field) (r : Req) :
    needsId fd r = true ↔
      (if fd.optional then r.lookup fd.name = none else (r.lookup fd.name = none ∨ r.lookup fd.name = some "")) := by
  unfold needsId needs
  cases fd.optional <;> cases r.lookup fd.name <;> simp

theorem popStep_ctr_le (gen : Nat → String) (inp : List Field) (st : Req × Nat) (f : String) :
    st.2 ≤ (popStep gen inp st f).2 := by
  unfold popStep
  split
  · exact Nat.le_refl _
  · split
    · exact Nat.le_succ _
    · exact Nat.le_refl _

theorem populate_ctr_le (gen : Nat → String) (inp : List Field) : ∀ (fields : List String) (st : Req × Nat),
    st.2 ≤ (populate gen inp fields st).2 := by
  intro fields
  induction fields with
  | nil => intro st; exact Nat.le_refl _
  | cons g fields ih =>
    intro st
    simp only [populate, List.foldl_cons]
    exact Nat.le_trans (popStep_ctr_le gen inp st g) (ih _)

theorem popStep_lookup_other (gen : Nat → String) (inp : List Field) (st : Req × Nat) (g f : String) (h : f ≠ g) :
    (popStep gen inp st g).1.lookup f = st.1.lookup f := by
  unfold popStep
  split
  · rfl
  · split
    · simp [Req.set, lookup_assign_other _ _ _ _ h]
    · rfl

/-- a field that is not listed, not found, or does not need an id keeps its state through the whole loop -/
theorem populate_keeps (gen : Nat → String) (inp : List Field) (f : String) :
    ∀ (fields : List String) (st : Req × Nat),
      (f ∉ fields ∨ getField inp f = none ∨ ∃ fd, getField inp f = some fd ∧ needsId fd st.1 = false) →
      (populate gen inp fields st).1.lookup f = st.1.lookup f := by
  intro fields
  induction fields with
  | nil => intro st _; rfl
  | cons g fields ih =>
    intro st h
    simp only [populate, List.foldl_cons]
    by_cases e : g = f
    · subst e
      have hst : popStep gen inp st g = st := by
        rcases h with h | h | ⟨fd, hfd, hn⟩
        · simp at h
        · simp [popStep, h]
        · simp [popStep, hfd, hn]
      rw [hst]
      refine ih st ?_
      rcases h with h | h | h
      · simp at h
      · exact Or.inr (Or.inl h)
      · exact Or.inr (Or.inr h)
    · have hne : f ≠ g := fun e' => e e'.symm
      have hl := popStep_lookup_other gen inp st g f hne
      have := ih (popStep gen inp st g) (by
        rcases h with h | h | ⟨fd, hfd, hn⟩
        · exact Or.inl (fun hm => h (List.mem_cons_of_mem _ hm))
        · exact Or.inr (Or.inl h)
        · refine Or.inr (Or.inr ⟨fd, hfd, ?_⟩)
          have hname := getField_name hfd
          unfold needsId at hn ⊢
          rw [hname] at hn ⊢
          rw [hl]; exact hn)
      simp only [populate] at this
      rw [this, hl]

theorem needs_after_set (gen : Nat → String) (hgen : ∀ k, gen k ≠ "") (fd : Field) (r : Req) (k : Nat) :
    needsId fd (Req.set r fd.name (gen k)) = false := by
  unfold needsId needs
  rw [Req.set, lookup_assign_same]
  cases fd.optional <;> simp [hgen k]

/-- a listed field that needs an id gets exactly one value `gen k` with `k` drawn during this loop -/
theorem populate_sets (gen : Nat → String) (hgen : ∀ k, gen k ≠ "") (inp : List Field) (f : String) (fd : Field)
    (hfd : getField inp f = some fd) :
    ∀ (fields : List String) (st : Req × Nat), f ∈ fields → needsId fd st.1 = true →
      ∃ k, st.2 ≤ k ∧ k < (populate gen inp fields st).2 ∧ (populate gen inp fields st).1.lookup f = some (gen k) := by
  intro fields
  induction fields with
  | nil => intro st h; simp at h
  | cons g fields ih =>
    intro st hmem hn
    have hname := getField_name hfd
    by_cases e : g = f
    · subst e
      have hst : popStep gen inp st g = (Req.set st.1 g (gen st.2), st.2 + 1) := by
        simp [popStep, hfd, hn]
      refine ⟨st.2, Nat.le_refl _, ?_, ?_⟩
      · simp only [populate, List.foldl_cons, hst]
        exact Nat.lt_of_lt_of_le (Nat.lt_succ_self _) (populate_ctr_le gen inp fields (Req.set st.1 g (gen st.2), st.2 + 1))
      · simp only [populate, List.foldl_cons, hst]
        have := populate_keeps gen inp g fields (Req.set st.1 g (gen st.2), st.2 + 1)
          (Or.inr (Or.inr ⟨fd, hfd, by simpa [hname] using needs_after_set gen hgen fd st.1 st.2⟩))
        simp only [populate] at this
        rw [this]
        simp [Req.set, lookup_assign_same]
    · have hne : f ≠ g := fun e' => e e'.symm
      have hmem' : f ∈ fields := by
        rcases List.mem_cons.mp hmem with h | h
        · exact absurd h hne
        · exact h
      have hl := popStep_lookup_other gen inp st g f hne
      have hn' : needsId fd (popStep gen inp st g).1 = true := by
        unfold needsId at hn ⊢
        rw [hname] at hn ⊢
        rw [hl]; exact hn
      obtain ⟨k, hk1, hk2, hk3⟩ := ih (popStep gen inp st g) hmem' hn'
      refine ⟨k, Nat.le_trans (popStep_ctr_le gen inp st g) hk1, ?_, ?_⟩
      · simpa only [populate, List.foldl_cons] using hk2
      · simpa only [populate, List.foldl_cons] using hk3

theorem startObj_of_ne_none (mode : Mode) (obj : Req) (h : mode ≠ .none) : startObj mode obj = obj := by
  simp [startObj, h]

theorem startObj_none (obj : Req) : startObj .none obj = [] := by simp [startObj]

theorem call_eq (gen : Nat → String) (m : Method) (s : Option Settings) (path : Path) (mode : Mode)
    (obj : Req) (ctr : Nat) :
    call gen m s path mode obj ctr =
      (some (populate gen m.input (fieldsOf s) (startObj mode obj, ctr)).1,
       (if mode = .inst then (populate gen m.input (fieldsOf s) (startObj mode obj, ctr)).1 else obj),
       (populate gen m.input (fieldsOf s) (startObj mode obj, ctr)).2) := by
  cases path <;> simp [call, pipeline, syncBody, asyncBody, exec]

theorem populate_nil_fields (gen : Nat → String) (inp : List Field) (st : Req × Nat) : populate gen inp [] st = st := rfl

end AuxPop

/-- **The macro runs on every call path, after the request object is complete and before it is sent**:
the sync client, the asyncio client, REST (= the sync client over the REST transport) and rest_asyncio
(= the asyncio client over the async REST transport) all hand the transport `populate(request)`.
(Structural on the model's statement lists; tied to the templates by the harness's scan of the emitted
method bodies and by T3 on all four paths.) -/
theorem macro_on_all_paths (gen : Nat → String) (m : Method) (s : Option Settings) (path : Path) (mode : Mode)
    (obj : Req) (ctr : Nat) :
    (call gen m s path mode obj ctr).1 = some (populate gen m.input (fieldsOf s) (startObj mode obj, ctr)).1 ∧
    (pipeline path).filter (fun x => x = .populate ∨ x = .send) = [.populate, .send] ∧
    pipeline .rest = pipeline .sync ∧ pipeline .restAsyncio = pipeline .asyncio := by
  refine ⟨by rw [call_eq], ?_, rfl, rfl⟩
  cases path <;> decide

/-- the request a call sends (it always sends one) -/
def sent (gen : Nat → String) (m : Method) (s : Option Settings) (_path : Path) (mode : Mode) (obj : Req) (ctr : Nat) : Req :=
  (populate gen m.input (fieldsOf s) (startObj mode obj, ctr)).1

theorem call_sends (gen : Nat → String) (m : Method) (s : Option Settings) (path : Path) (mode : Mode)
    (obj : Req) (ctr : Nat) : (call gen m s path mode obj ctr).1 = some (sent gen m s path mode obj ctr) := by
  rw [call_eq]; rfl

/-- **Populated iff unset.** For a listed field of an accepted method: if the caller left it unset
(proto3-optional: not present; plain: not present or empty) the request that is sent carries a value
drawn from `uuid4` during this very call; otherwise it carries exactly the caller's state.
`startObj mode obj` is what the caller handed over (`obj`, or nothing at all when `mode = none`).
`hgen`: `str(uuid.uuid4())` is never the empty string. -/
theorem populate_iff_unset (gen : Nat → String) (hgen : ∀ k, gen k ≠ "") (m : Method) (s : Settings)
    (path : Path) (mode : Mode) (obj : Req) (ctr : Nat) (f : String) (fd : Field)
    (hf : f ∈ s.fields) (hfd : getField m.input f = some fd) :
    (needsId fd (startObj mode obj) = true →
        ∃ k, ctr ≤ k ∧ k < (call gen m (some s) path mode obj ctr).2.2 ∧
          (sent gen m (some s) path mode obj ctr).lookup f = some (gen k)) ∧
    (needsId fd (startObj mode obj) = false →
        (sent gen m (some s) path mode obj ctr).lookup f = (startObj mode obj).lookup f) := by
  constructor
  · intro hn
    rw [call_eq]
    exact populate_sets gen hgen m.input f fd hfd s.fields (startObj mode obj, ctr) hf hn
  · intro hn
    exact populate_keeps gen m.input f s.fields (startObj mode obj, ctr) (Or.inr (Or.inr ⟨fd, hfd, hn⟩))

/-- a call without a request and without keyword arguments gets an id in EVERY listed field -/
theorem none_mode_populates_all (gen : Nat → String) (hgen : ∀ k, gen k ≠ "") (m : Method) (s : Settings)
    (path : Path) (obj : Req) (ctr : Nat) (f : String) (fd : Field)
    (hf : f ∈ s.fields) (hfd : getField m.input f = some fd) :
    ∃ k, ctr ≤ k ∧ k < (call gen m (some s) path .none obj ctr).2.2 ∧
      (sent gen m (some s) path .none obj ctr).lookup f = some (gen k) := by
  refine (populate_iff_unset gen hgen m s path .none obj ctr f fd hf hfd).1 ?_
  rw [startObj_none]
  unfold needsId needs
  cases fd.optional <;> simp

/-- **A caller-provided value is never altered**: a present proto3-optional field (even empty) and a
non-empty plain field reach the transport unchanged, on every path and in every calling mode. -/
theorem provided_value_kept (gen : Nat → String) (m : Method) (s : Option Settings) (path : Path) (mode : Mode)
    (obj : Req) (ctr : Nat) (f : String) (fd : Field) (v : String)
    (hfd : getField m.input f = some fd) (hv : (startObj mode obj).lookup f = some v)
    (hset : fd.optional = true ∨ v ≠ "") :
    (sent gen m s path mode obj ctr).lookup f = some v := by
  have hname := getField_name hfd
  have hn : needsId fd (startObj mode obj) = false := by
    unfold needsId needs
    rw [hname, hv]
    rcases hset with h | h
    · simp [h]
    · cases fd.optional <;> simp [h]
  rw [← hv]
  exact populate_keeps gen m.input f _ (startObj mode obj, ctr) (Or.inr (Or.inr ⟨fd, hfd, hn⟩))

/-- fields that are not listed are not touched (in particular nothing at all happens without settings) -/
theorem other_fields_untouched (gen : Nat → String) (m : Method) (s : Option Settings) (path : Path) (mode : Mode)
    (obj : Req) (ctr : Nat) (f : String) (hf : f ∉ fieldsOf s) :
    (sent gen m s path mode obj ctr).lookup f = (startObj mode obj).lookup f :=
  populate_keeps gen m.input f _ (startObj mode obj, ctr) (Or.inl hf)

/-- **Fresh per call**: two calls that both populate the field, the second starting where any later
point of the uuid stream is, send different ids — provided `uuid4` itself does not repeat (`hinj`) and the
second call really has the field unset (`hn2`; see `instance_reuse_counterexample` for when it has not). -/
theorem fresh_across_calls (gen : Nat → String) (hgen : ∀ k, gen k ≠ "") (hinj : ∀ a b, gen a = gen b → a = b)
    (m : Method) (s : Settings) (p1 p2 : Path) (m1 m2 : Mode) (o1 o2 : Req) (c1 c2 : Nat)
    (f : String) (fd : Field) (hf : f ∈ s.fields) (hfd : getField m.input f = some fd)
    (hc : (call gen m (some s) p1 m1 o1 c1).2.2 ≤ c2)
    (hn1 : needsId fd (startObj m1 o1) = true) (hn2 : needsId fd (startObj m2 o2) = true) :
    (sent gen m (some s) p1 m1 o1 c1).lookup f ≠ (sent gen m (some s) p2 m2 o2 c2).lookup f := by
  obtain ⟨k1, _, hk1, e1⟩ := (populate_iff_unset gen hgen m s p1 m1 o1 c1 f fd hf hfd).1 hn1
  obtain ⟨k2, hk2, _, e2⟩ := (populate_iff_unset gen hgen m s p2 m2 o2 c2 f fd hf hfd).1 hn2
  rw [e1, e2]
  intro e
  have := hinj _ _ (Option.some.inj e)
  omega

/-- In `inst` mode the object that is populated IS the caller's object: after the call the caller's
request carries the generated id; in every other mode the caller's object/dict is left alone. -/
theorem inst_mode_mutates_caller (gen : Nat → String) (m : Method) (s : Option Settings) (path : Path)
    (obj : Req) (ctr : Nat) :
    (call gen m s path .inst obj ctr).2.1 = sent gen m s path .inst obj ctr ∧
    (call gen m s path .dict obj ctr).2.1 = obj ∧ (call gen m s path .kwargs obj ctr).2.1 = obj ∧
    (call gen m s path .none obj ctr).2.1 = obj := by
  simp [call_eq, sent]

/-- … so a second call with the same request instance finds the field set and sends the SAME id again
(general form: whatever the first call populated is kept by the second). -/
theorem instance_reuse_same_id (gen : Nat → String) (hgen : ∀ k, gen k ≠ "") (m : Method) (s : Settings)
    (p1 p2 : Path) (obj : Req) (c1 c2 : Nat) (f : String) (fd : Field)
    (hf : f ∈ s.fields) (hfd : getField m.input f = some fd) (hn : needsId fd obj = true) :
    (sent gen m (some s) p2 .inst (call gen m (some s) p1 .inst obj c1).2.1 c2).lookup f
      = (sent gen m (some s) p1 .inst obj c1).lookup f := by
  have hs : ∀ o, startObj .inst o = o := fun o => startObj_of_ne_none .inst o (by decide)
  obtain ⟨k, _, _, e⟩ := (populate_iff_unset gen hgen m s p1 .inst obj c1 f fd hf hfd).1 (by rw [hs]; exact hn)
  rw [(inst_mode_mutates_caller gen m (some s) p1 obj c1).1]
  have hname := getField_name hfd
  show (populate gen m.input s.fields (startObj .inst (sent gen m (some s) p1 .inst obj c1), c2)).1.lookup f = _
  rw [hs]
  refine populate_keeps gen m.input f _ _ (Or.inr (Or.inr ⟨fd, hfd, ?_⟩))
  unfold needsId needs
  rw [hname]
  show (if fd.optional = true then ((sent gen m (some s) p1 .inst obj c1).lookup f).isNone
        else ((sent gen m (some s) p1 .inst obj c1).lookup f).getD "" == "") = false
  rw [e]
  cases fd.optional <;> simp [hgen k]

/-! ### Which settings a method sees, and the `import uuid` gate -/

/-- the macro looks the settings up by the method's own selector: an entry for another method is never
used (the same field name may be listed for two methods; each gets its own list) -/
theorem settingsFor_selector (ss : List Settings) (sel : String) (s : Settings)
    (h : settingsFor ss sel = some s) : s.selector = sel ∧ s ∈ ss := by
  unfold settingsFor at h
  have hm := List.mem_of_getLast? h
  rw [List.mem_filter] at hm
  exact ⟨by simpa using hm.2, hm.1⟩

/-- in an accepted list (no selector twice) every entry is the one its method sees, in whatever order the
entries were written -/
theorem settingsFor_of_nodup (ss : List Settings) (s : Settings)
    (hnd : (ss.map (·.selector)).Nodup) (hs : s ∈ ss) : settingsFor ss s.selector = some s := by
  unfold settingsFor
  rw [filter_selector_of_nodup ss s hnd hs]
  rfl

/-- a method no entry names sees no settings: nothing is populated, no uuid is drawn -/
theorem no_settings_no_population (gen : Nat → String) (ss : List Settings) (m : Method) (path : Path) (mode : Mode)
    (obj : Req) (ctr : Nat) (h : ∀ s ∈ ss, s.selector ≠ m.selector) :
    call gen m (settingsFor ss m.selector) path mode obj ctr = (some (startObj mode obj), (if mode = .inst then startObj mode obj else obj), ctr) := by
  have : settingsFor ss m.selector = none := by
    unfold settingsFor
    have : ss.filter (fun s => s.selector == m.selector) = [] := by
      rw [List.filter_eq_nil_iff]
      intro s hs
      simpa using h s hs
    rw [this]; rfl
  rw [this, call_eq]
  rfl

/-- **`uuid` is imported whenever the macro can evaluate `uuid.uuid4()`**: a call in a library generated
with ANY settings list never fails with `NameError` — the gate is true as soon as the list has an entry, and
a uuid is only drawn for a method that has an entry. (Round-2 seed: gate on the first entry only.) -/
theorem no_name_error (gen : Nat → String) (ss : List Settings) (m : Method) (path : Path) (mode : Mode)
    (obj : Req) (ctr : Nat) :
    callChecked gen ss m path mode obj ctr = (call gen m (settingsFor ss m.selector) path mode obj ctr).1 := by
  unfold callChecked
  cases ss with
  | nil =>
    have : settingsFor [] m.selector = none := rfl
    simp [this, call_eq, fieldsOf, populate_nil_fields]
  | cons a l => simp [importsUuid]

theorem importsUuid_iff (ss : List Settings) : importsUuid ss = true ↔ ss ≠ [] := by
  cases ss <;> simp [importsUuid]

/-- the gate does not depend on the ORDER of the entries nor on which entry lists fields -/
theorem importsUuid_of_any_fields (ss : List Settings) (h : ∃ s ∈ ss, s.fields ≠ []) : importsUuid ss = true := by
  obtain ⟨s, hs, _⟩ := h
  exact (importsUuid_iff ss).mpr (List.ne_nil_of_mem hs)

/-! ### Paginated methods -/

/-- every request of a paginated call carries the id of the first one (and every other field but the
page token): the follow-up requests are not new calls -/
theorem pages_keep_id (first : Req) (tokens : List String) (f : String) (hf : f ≠ "page_token") :
    ∀ r ∈ pageRequests first tokens, r.lookup f = first.lookup f := by
  intro r hr
  unfold pageRequests at hr
  rcases List.mem_cons.mp hr with e | hr
  · rw [e]
  · obtain ⟨t, _, e⟩ := List.mem_map.mp hr
    rw [← e, Req.set, lookup_assign_other _ _ _ _ hf]

theorem pages_count (first : Req) (tokens : List String) : (pageRequests first tokens).length = tokens.length + 1 := by
  simp [pageRequests]

/-! ### non-vacuity, and the call sequence on which "fresh on every call" fails -/

def demoGen (k : Nat) : String := "$" ++ toString k

example : needsId fId [("name", "n")] = true ∧ needsId fId [("request_id", "")] = true ∧
    needsId fId [("request_id", "mine")] = false ∧ needsId fOpt [] = true ∧ needsId fOpt [("opt_id", "")] = false := by decide
example : (call demoGen mCreate (some ⟨"p.S.Create", ["request_id", "opt_id"]⟩) .rest .dict [("name", "n")] 0).1 =
    some [("name", "n"), ("request_id", "$0"), ("opt_id", "$1")] := by decide
example : (call demoGen mCreate (some ⟨"p.S.Create", ["request_id", "opt_id"]⟩) .asyncio .kwargs
    [("request_id", "mine"), ("opt_id", "")] 5).1 = some [("request_id", "mine"), ("opt_id", "")] := by decide
example : session demoGen mCreate (some ⟨"p.S.Create", ["request_id"]⟩) .sync [(.dict, 0), (.dict, 0)] [[("name", "n")]] 0 =
    [some [("name", "n"), ("request_id", "$0")], some [("name", "n"), ("request_id", "$1")]] := by decide

/-- a uuid stream that meets `hgen` and `hinj` (the theorems' hypotheses on `uuid.uuid4` are satisfiable) -/
def uGen (k : Nat) : String := String.ofList (List.replicate (k + 1) 'u')

example : (∀ k, uGen k ≠ "") ∧ (∀ a b, uGen a = uGen b → a = b) := by
  constructor
  · intro k h
    have := congrArg String.length h
    simp [uGen] at this
  · intro a b h
    have := congrArg String.length h
    simpa [uGen] using this

-- hypotheses of `populate_iff_unset` / `fresh_across_calls` / `instance_reuse_same_id` at a concrete point
example : "request_id" ∈ (⟨"p.S.Create", ["request_id", "opt_id"]⟩ : Settings).fields ∧
    getField mCreate.input "request_id" = some fId ∧ needsId fId [("name", "n")] = true ∧
    (call uGen mCreate (some ⟨"p.S.Create", ["request_id", "opt_id"]⟩) .sync .dict [("name", "n")] 0).2.2 ≤ 2 := by decide
-- hypotheses of `provided_value_kept` (both kinds of "set") and of `other_fields_untouched`
example : getField mCreate.input "opt_id" = some fOpt ∧ List.lookup "opt_id" [("opt_id", "")] = some "" ∧ fOpt.optional = true := by decide
example : getField mCreate.input "request_id" = some fId ∧ List.lookup "request_id" [("request_id", "mine")] = some "mine" ∧ "mine" ≠ "" := by decide
example : "name" ∉ fieldsOf (some ⟨"p.S.Create", ["request_id"]⟩) := by decide
-- hypotheses of `nested_path_not_found`, `classify_streaming`, `classify_fields`, `duplicate_reported`
example : (∀ fd ∈ mCreate.input, '.' ∉ fd.name.toList) ∧ '.' ∈ "inner.request_id".toList := by decide
example : getMethod demoApi "p.S.Watch" = some mWatch ∧ mWatch.serverStreaming = true := by decide
example : 2 ≤ (([⟨"p.S.Create", ["name"]⟩, ⟨"p.S.Watch", []⟩, ⟨"p.S.Create", []⟩] : List Settings).filter
    (fun s => s.selector == "p.S.Create")).length := by decide

-- `none` mode, the settings lookup in either order, the import gate, pages
example : (call demoGen mCreate (some ⟨"p.S.Create", ["request_id", "opt_id"]⟩) .restAsyncio .none [("request_id", "ignored")] 3).1 =
    some [("request_id", "$3"), ("opt_id", "$4")] := by decide
example : settingsFor [⟨"p.S.Watch", []⟩, ⟨"p.S.Create", ["request_id"]⟩] "p.S.Create" = some ⟨"p.S.Create", ["request_id"]⟩ ∧
    settingsFor [⟨"p.S.Create", ["request_id"]⟩, ⟨"p.S.Watch", []⟩] "p.S.Create" = some ⟨"p.S.Create", ["request_id"]⟩ ∧
    settingsFor [⟨"p.S.Watch", []⟩] "p.S.Create" = none := by decide
example : importsUuid [⟨"p.S.Watch", []⟩, ⟨"p.S.Create", ["request_id"]⟩] = true ∧ importsUuid [] = false := by decide
example : callChecked demoGen [⟨"p.S.Watch", []⟩, ⟨"p.S.Create", ["request_id"]⟩] mCreate .sync .dict [("name", "n")] 0 =
    some [("name", "n"), ("request_id", "$0")] := by decide
example : pageRequests [("request_id", "$0")] ["t1", "t2"] =
    [[("request_id", "$0")], [("request_id", "$0"), ("page_token", "t1")], [("request_id", "$0"), ("page_token", "t2")]] := by decide
example : ∀ s ∈ ([⟨"p.S.Watch", []⟩] : List Settings), s.selector ≠ mCreate.selector := by decide

/-- The statement wants a fresh id on EVERY call in which the caller left the field unset. The caller
builds one request object, leaves `request_id` unset and calls twice: the emitted code wrote the first id
into the caller's object, so the second call sends the same id (real code: same). Known finding. -/
theorem instance_reuse_counterexample :
    session demoGen mCreate (some ⟨"p.S.Create", ["request_id"]⟩) .sync [(.inst, 0), (.inst, 0)] [[("name", "n")]] 0 =
      [some [("name", "n"), ("request_id", "$0")], some [("name", "n"), ("request_id", "$0")]] := by decide

end GapicModel.Props.C18
