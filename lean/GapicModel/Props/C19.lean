import GapicModel.Model.PathHelpers
import GapicModel.Model.ResourceVis
import GapicModel.Lemmas.Regex
import GapicModel.Lemmas.C19Vis
import GapicModel.Pinned.CharClass
import GapicModel.Pinned.Tables
/-
C19 — resource path helpers build and parse names as mutual inverses.
Property theorems only (helper lemmas about this model are in the `private`/`Aux` section
at the top because they are specific to it).  No Mathlib.
-/
namespace GapicModel.Props.C19
open GapicModel.Regex GapicModel.Model.PathHelpers

/-- Hypotheses under which the round trip is proved (DESIGN §7.19):
  * literal text contains no newline;
  * every value is non-empty and newline-free;
  * a variable is followed by a non-empty literal whose first character does not occur in the
    variable's value, or it ends the pattern (so the last variable may contain `/`), or the literal
    that follows it ends the pattern (the last variable before a singleton suffix such as
    `/settings` may hold anything too: `$` pins the suffix to the end). -/
def Good : List Seg → List (List Char) → Prop
  | [], vs => vs = []
  | .lit cs :: r, vs => '\n' ∉ cs ∧ Good r vs
  | .var _ _ :: r, vs =>
      match vs with
      | [] => False
      | v :: vs' =>
        v ≠ [] ∧ '\n' ∉ v ∧
        (match r with
         | [] => True
         | .lit (c :: _) :: r2 => c ∉ v ∨ r2 = []
         | _ => False) ∧ Good r vs'

/-- captures produced by a successful parse, most recent first (as the matcher stores them). -/
def capsP : Nat → List Seg → List (List Char) → List (Nat × List Char) → List (Nat × List Char)
  | _, [], _, acc => acc
  | i, .lit _ :: r, vs, acc => capsP i r vs acc
  | i, .var _ _ :: r, v :: vs, acc => capsP (i+1) r vs ((i, v) :: acc)
  | i, .var _ _ :: r, [], acc => capsP (i+1) r [] acc

section Aux

theorem lit_fail (t : ClassTables) (c : Char) (cs : List Char) (r : List Re) (pre rest caps) (k : K)
    (h : ∀ d tl, rest = d :: tl → d ≠ c) (hne : rest ≠ []) :
    m t (seqR ((c :: cs).map .chr ++ r)) ⟨pre, rest, caps⟩ k = none := by
  cases rest with
  | nil => exact absurd rfl hne
  | cons d tl =>
    have hd := h d tl rfl
    simp only [List.map_cons, List.cons_append, m_seqR_cons, m]
    simp [Ne.symm hd]

/-- a literal suffix followed by `$` cannot match anywhere but at the very end. -/
theorem lits_eol_fail (t : ClassTables) (L y : List Char) (pre caps) (k : K)
    (hy : y ≠ []) (hny : '\n' ∉ y) (hnl : '\n' ∉ L) :
    m t (seqR (L.map .chr ++ [.eol])) ⟨pre, y ++ L, caps⟩ k = none := by
  rw [m_seqR_chrs]
  split
  · simp only [seqR, adv]
    apply eol_fail
    · intro h
      have hl := congrArg List.length h
      simp at hl
      cases y with
      | nil => exact hy rfl
      | cons _ _ => simp at hl
    · intro h
      have := List.mem_of_mem_drop h
      simp only [List.mem_append] at this
      cases this with
      | inl h => exact hny h
      | inr h => exact hnl h
  · rfl

/-- the matcher, run on a built path, consumes it entirely and records exactly the values. -/
theorem match_build (t : ClassTables) : ∀ (segs : List Seg) (vals : List (List Char)) (i : Nat),
    Good segs vals →
    ∀ (pre : List Char) (caps : List (Nat × List Char)),
    m t (seqR (segItems i segs ++ [.eol])) ⟨pre, build segs vals, caps⟩ some
      = some ⟨(build segs vals).reverse ++ pre, [], capsP i segs vals caps⟩ := by
  intro segs
  induction segs with
  | nil =>
    intro vals i h pre caps
    simp [Good] at h
    subst h
    simp [segItems, build, capsP, seqR, m]
  | cons sg r ih =>
    intro vals i h pre caps
    cases sg with
    | lit cs =>
      simp only [Good] at h
      obtain ⟨hnl, hg⟩ := h
      simp only [segItems, litItems, build, capsP, List.append_assoc]
      rw [m_seqR_chrs]
      simp only [List.prefix_append, if_true, adv]
      have := ih vals i hg (cs.reverse ++ pre) caps
      simpa using this
    | var n mu =>
      cases vals with
      | nil => simp [Good] at h
      | cons v vs =>
        simp only [Good] at h
        obtain ⟨hne, hnl, hnext, hgood⟩ := h
        cases v with
        | nil => exact absurd rfl hne
        | cons d x =>
          have hd : d ≠ '\n' := by intro hh; apply hnl; simp [hh]
          have hx : '\n' ∉ x := by intro hh; apply hnl; simp [hh]
          simp only [segItems, build, capsP, List.cons_append, m_seqR_cons, varRe, m]
          simp only [hd, ne_eq, not_false_eq_true, if_true]
          have hstar := star_any_lazy t
            (fun s' => m t (seqR (segItems (i+1) r ++ [.eol]))
              { s' with caps := (i, capture ⟨pre, d :: (x ++ build r vs), caps⟩ s') :: s'.caps } some)
            ⟨d :: pre, x ++ build r vs, caps⟩
          simp only [m] at hstar
          rw [hstar]
          rw [lazySpec_skip _ caps x (d :: pre) (build r vs) hx]
          · have hk := ih vs (i+1) hgood (x.reverse ++ d :: pre) ((i, d :: x) :: caps)
            have hcap : capture ⟨pre, d :: (x ++ build r vs), caps⟩ ⟨x.reverse ++ d :: pre, build r vs, caps⟩ = d :: x := by
              simp only [capture]
              have h1 : (x.reverse ++ d :: pre).length - pre.length = (x.reverse ++ [d]).length := by simp; omega
              rw [h1]
              have h2 : x.reverse ++ d :: pre = (x.reverse ++ [d]) ++ pre := by simp
              rw [h2, List.take_left']
              · simp
              · rfl
            cases hb : build r vs with
            | nil =>
              simp only [lazySpec]
              rw [← hb, hcap]
              simp only [hb] at hk ⊢
              simpa using hk
            | cons e tl =>
              simp only [lazySpec]
              rw [← hb, hcap]
              simp only [hb] at hk ⊢
              simp only [List.reverse_cons, List.append_assoc] at hk ⊢
              simp [hk, Option.orElse]
          · intro j hj
            cases r with
            | nil =>
              simp only [segItems, List.nil_append, seqR]
              apply eol_fail
              · simp; omega
              · intro hh; apply hx
                simp only [build, List.append_nil] at hh
                exact List.mem_of_mem_drop hh
            | cons sg2 r2 =>
              cases sg2 with
              | var _ _ => simp at hnext
              | lit cs2 =>
                cases cs2 with
                | nil => simp at hnext
                | cons c cs3 =>
                  cases hnext with
                  | inr hlast =>
                    subst hlast
                    simp only [Good] at hgood
                    obtain ⟨hnlL, hvs⟩ := hgood
                    subst hvs
                    have hy : x.drop j ≠ [] := by simp; omega
                    have hny : '\n' ∉ x.drop j := fun h => hx (List.mem_of_mem_drop h)
                    simp only [segItems, litItems, build, List.append_nil]
                    exact lits_eol_fail t (c :: cs3) (x.drop j) _ _ _ hy hny hnlL
                  | inl hnext =>
                  have := lit_fail t c cs3 (segItems (i+1) r2 ++ [.eol])
                  simp only [segItems, litItems, List.map_cons, List.cons_append, List.append_assoc] at this ⊢
                  apply this
                  · intro e tl he
                    have hmem : e ∈ x := by
                      have hdrop : x.drop j ≠ [] := by simp; omega
                      cases hxd : x.drop j with
                      | nil => exact absurd hxd hdrop
                      | cons e' t' =>
                        rw [hxd] at he
                        simp at he
                        have : e' ∈ x.drop j := by rw [hxd]; simp
                        rw [← he.1]; exact List.mem_of_mem_drop this
                    intro hec; subst hec
                    apply hnext; simp [hmem]
                  · simp; omega

/-- the dictionary a successful parse of a built path is expected to return (in group order). -/
def expected : List Seg → List (List Char) → List (String × List Char)
  | [], _ => []
  | .lit _ :: r, vs => expected r vs
  | .var n _ :: r, v :: vs => (String.ofList n, v) :: expected r vs
  | .var _ _ :: r, [] => expected r []

theorem group_capsP_lt : ∀ (segs : List Seg) (vs) (i : Nat) (acc) (j : Nat), j < i →
    St.group? (capsP i segs vs acc) j = St.group? acc j := by
  intro segs
  induction segs with
  | nil => intros; rfl
  | cons sg r ih =>
    intro vs i acc j hj
    cases sg with
    | lit cs => simpa [capsP] using ih vs i acc j hj
    | var n mu =>
      cases vs with
      | nil => simpa [capsP] using ih [] (i+1) acc j (by omega)
      | cons v vs =>
        simp only [capsP]
        rw [ih vs (i+1) ((i, v) :: acc) j (by omega)]
        have : (i == j) = false := by simp; omega
        simp [St.group?, List.find?, this]

theorem groupdict_capsP : ∀ (segs : List Seg) (vals) (i : Nat) (acc), Good segs vals →
    (namesFrom i segs).map (fun (n, j) => (n, (St.group? (capsP i segs vals acc) j).getD []))
      = expected segs vals := by
  intro segs
  induction segs with
  | nil => intros; rfl
  | cons sg r ih =>
    intro vals i acc h
    cases sg with
    | lit cs =>
      simp only [Good] at h
      simpa [namesFrom, capsP, expected] using ih vals i acc h.2
    | var n mu =>
      cases vals with
      | nil => simp [Good] at h
      | cons v vs =>
        simp only [Good] at h
        simp only [namesFrom, capsP, expected, List.map_cons]
        rw [group_capsP_lt r vs (i+1) ((i, v) :: acc) i (by omega)]
        have := ih vs (i+1) ((i, v) :: acc) h.2.2.2
        simpa [St.group?, List.find?] using this

theorem expected_values : ∀ (segs : List Seg) (vals), Good segs vals →
    (expected segs vals).map (·.2) = vals := by
  intro segs
  induction segs with
  | nil => intro vals h; simp [Good] at h; simp [expected, h]
  | cons sg r ih =>
    intro vals h
    cases sg with
    | lit cs => simp only [Good] at h; simpa [expected] using ih vals h.2
    | var n mu =>
      cases vals with
      | nil => simp [Good] at h
      | cons v vs => simp only [Good] at h; simp [expected, ih vs h.2.2.2]

end Aux

/-! ## Property theorems -/

/-- The wildcard pattern `*` never rejects and never raises: the helper returns `{}` for
every string (the regex `^.*$` has no named group, so "accepts anything" is all it can say). -/
theorem wildcard_accepts_all (t : ClassTables) (s : List Char) : parse t [.lit ['*']] s = [] := by
  simp only [parse, pathRegex, if_true]
  cases pyMatch t (seqR [Re.bol, Re.star Re.any true, Re.eol]) s <;> simp [groupdict]

/-- **Round trip, parse ∘ build** (partial: under `Good`).  For every tokenised pattern and every
list of values satisfying `Good`, the emitted `parse_<r>_path(<r>_path(*vals))` returns exactly
the (name, value) pairs.  Holds for any `\\s\\w\\d` tables (the regex uses none).  Since the C19
`fix:` commit no hypothesis on the literal text is needed beyond "no newline": separators such
as `.` are covered. -/
theorem parse_build_partial (t : ClassTables) (segs : List Seg) (vals : List (List Char))
    (h : Good segs vals) :
    parse t segs (build segs vals) = expected segs vals := by
  by_cases hw : segs = [.lit ['*']]
  · subst hw
    rw [wildcard_accepts_all]
    rfl
  · have hm := match_build t segs vals 1 h [] []
    simp only [parse, pathRegex, hw, if_false]
    simp only [pyMatch, matchAt]
    rw [show (Re.bol :: segItems 1 segs ++ [Re.eol]) = Re.bol :: (segItems 1 segs ++ [Re.eol]) from rfl, m_seqR_cons]
    simp only [m, if_true, hm, Option.map, groupdict]
    exact groupdict_capsP segs vals 1 [] h

/-- **Round trip, build ∘ parse ∘ build** (partial: under `Good`): rebuilding from the parsed
segments returns the path. -/
theorem rebuild_partial (t : ClassTables) (segs : List Seg) (vals : List (List Char))
    (h : Good segs vals) :
    build segs ((parse t segs (build segs vals)).map (·.2)) = build segs vals := by
  rw [parse_build_partial t segs vals h, expected_values segs vals h]

/-- A string that does not match the pattern parses to the empty dict. -/
theorem nonmatch_empty (t : ClassTables) (segs : List Seg) (s : List Char)
    (hn : pyMatch t (pathRegex segs).re s = none) : parse t segs s = [] := by
  simp [parse, hn]

/-- `<name>_path` takes exactly the pattern's variables, in order. -/
theorem args_are_variables (segs : List Seg) :
    (namesFrom 1 segs).map (·.1) = (pathArgs segs).map String.ofList := by
  suffices h : ∀ i, (namesFrom i segs).map (·.1) = (pathArgs segs).map String.ofList from h 1
  induction segs with
  | nil => intro; rfl
  | cons sg r ih => intro i; cases sg <;> simp [namesFrom, pathArgs, ih]

/-! ## The round trip in the property's own words

`Good` is what the proof needs.  The statement of C19 speaks of "segment values that do not contain a
delimiter of the pattern (with `/` allowed only inside the trailing `**` variable)" over patterns in
which a variable is followed by a separator or ends the pattern.  `Shape` and `NoDelim` restate
that; `roundtrip_in_quantifier` is the property's sentence, for all patterns and values, and it is
STRONGER than the sentence (the last variable may hold any newline-free text, a value may hold a
separator that belongs to another variable).  What is still excluded — the reason
`parse_build_partial` keeps its suffix — is exactly: an empty value, a newline in a value.  Both are
run on the real code on every run (excluded-point stream) and are listed findings. -/

/-- first character of the literal at the head of the remaining pattern -/
def followDelim : List Seg → List Char
  | .lit (c :: _) :: _ => [c]
  | _ => []

/-- the non-slash delimiters of a pattern: the first character of every literal that follows a variable -/
def delims : List Seg → List Char
  | [] => []
  | .lit _ :: r => delims r
  | .var _ _ :: r => followDelim r ++ delims r

/-- the quantifier's patterns: newline-free literal text; a variable is followed by a non-empty
literal or ends the pattern (no `{a}{b}`) -/
def Shape : List Seg → Prop
  | [] => True
  | .lit cs :: r => '\n' ∉ cs ∧ Shape r
  | .var _ _ :: r =>
      (match r with
       | [] => True
       | .lit (_ :: _) :: _ => True
       | _ => False) ∧ Shape r

/-- the quantifier's values w.r.t. a delimiter set `D`: one value per variable, non-empty, newline-free,
free of every delimiter in `D` — except the LAST variable (it ends the pattern, or only a literal
suffix follows it), which may hold anything (in particular `/`, for `{v=**}`) -/
def NoDelim (D : List Char) : List Seg → List (List Char) → Prop
  | [], vs => vs = []
  | .lit _ :: r, vs => NoDelim D r vs
  | .var _ _ :: _, [] => False
  | .var _ _ :: r, v :: vs => v ≠ [] ∧ '\n' ∉ v ∧ (r = [] ∨ (∃ L, r = [.lit L]) ∨ ∀ c ∈ D, c ∉ v) ∧ NoDelim D r vs

theorem noDelim_good (D : List Char) : ∀ (segs : List Seg) (vals : List (List Char)),
    Shape segs → (∀ c ∈ delims segs, c ∈ D) → NoDelim D segs vals → Good segs vals := by
  intro segs
  induction segs with
  | nil => intro vals _ _ h; simpa [NoDelim, Good] using h
  | cons sg r ih =>
    intro vals hs hd hv
    cases sg with
    | lit cs =>
      simp only [Shape] at hs
      simp only [NoDelim] at hv
      simp only [Good]
      exact ⟨hs.1, ih vals hs.2 (fun c hc => hd c (by simpa [delims] using hc)) hv⟩
    | var n mu =>
      cases vals with
      | nil => simp [NoDelim] at hv
      | cons v vs =>
        simp only [Shape] at hs
        simp only [NoDelim] at hv
        obtain ⟨hne, hnl, hdl, hrest⟩ := hv
        have hg := ih vs hs.2 (fun c hc => hd c (by simp [delims, hc])) hrest
        simp only [Good]
        refine ⟨hne, hnl, ?_, hg⟩
        cases r with
        | nil => trivial
        | cons sg2 r2 =>
          cases sg2 with
          | var _ _ => exact absurd hs.1 (by simp)
          | lit cs2 =>
            cases cs2 with
            | nil => exact absurd hs.1 (by simp)
            | cons c cs3 =>
              cases hdl with
              | inl h => cases h
              | inr h =>
                cases h with
                | inl h =>
                  obtain ⟨L, hL⟩ := h
                  simp only [List.cons.injEq] at hL
                  exact Or.inr hL.2
                | inr h => exact Or.inl (h c (hd c (by simp [delims, followDelim])))

/-- **The property's sentence**: for every pattern of the quantifier's shape and all values free of
the pattern's delimiters (`/` and the separators that follow a variable; the variable that ends the
pattern is unrestricted), parsing the built path returns exactly the segments and rebuilding from
them returns the path. -/
theorem roundtrip_in_quantifier (t : ClassTables) (segs : List Seg) (vals : List (List Char))
    (hs : Shape segs) (hv : NoDelim ('/' :: delims segs) segs vals) :
    parse t segs (build segs vals) = expected segs vals ∧
    build segs ((parse t segs (build segs vals)).map (·.2)) = build segs vals := by
  have hg := noDelim_good ('/' :: delims segs) segs vals hs (fun c hc => List.mem_cons_of_mem _ hc) hv
  exact ⟨parse_build_partial t segs vals hg, rebuild_partial t segs vals hg⟩

/-- all four non-slash separators inside ONE segment, a singleton-free tail `{f=**}` holding `/`:
`as/{a}-{b}_{c}~{d}.{e}/k/{f=**}` with `x1`, `y+`, `z z`, `u`, `v@w`, `p/q-r/s`. -/
example :
    let segs := [.lit "as/".toList, .var "a".toList false, .lit "-".toList, .var "b".toList false,
      .lit "_".toList, .var "c".toList false, .lit "~".toList, .var "d".toList false, .lit ".".toList,
      .var "e".toList false, .lit "/k/".toList, .var "f".toList true]
    Shape segs ∧ NoDelim ('/' :: delims segs) segs
      ["x1".toList, "y+".toList, "z z".toList, "u".toList, "v@w".toList, "p/q-r/s".toList] := by
  simp [Shape, NoDelim, delims, followDelim]

/-! ## Rebuilding BY NAME: `<r>_path(**parse_<r>_path(path))`

Variable names are opaque strings in the model (`Seg.var name`): nothing above looks inside a name, so
camelCase, Capitalised, digit- or underscore-holding names are covered as they are.  What a caller
writes is `build(**parse(path))`: the builder's parameters are looked up by the NAMES the parser's
groups carry.  `buildKw` (Model/PathHelpers.lean) is that call (a missing name is Python's TypeError / KeyError: `none`). -/

theorem buildKw_of_lookup : ∀ (segs : List Seg) (vals : List (List Char)) (kv : List (String × List Char)),
    Good segs vals → (∀ p ∈ expected segs vals, kv.lookup p.1 = some p.2) →
    buildKw segs kv = some (build segs vals) := by
  intro segs
  induction segs with
  | nil => intro vals kv _ _; simp [buildKw, build]
  | cons sg r ih =>
    intro vals kv hg hl
    cases sg with
    | lit cs =>
      simp only [Good] at hg
      simp only [expected] at hl
      simp [buildKw, build, ih vals kv hg.2 hl]
    | var n mu =>
      cases vals with
      | nil => simp [Good] at hg
      | cons v vs =>
        simp only [Good] at hg
        simp only [expected] at hl
        have h1 := hl (String.ofList n, v) (List.mem_cons_self)
        have h2 := ih vs kv hg.2.2.2 (fun p hp => hl p (List.mem_cons_of_mem _ hp))
        simp only at h1
        simp [buildKw, build, h1, h2]

theorem lookup_of_nodup_keys : ∀ (kv : List (String × List Char)), (kv.map (·.1)).Nodup →
    ∀ p ∈ kv, kv.lookup p.1 = some p.2 := by
  intro kv
  induction kv with
  | nil => intro _ p hp; cases hp
  | cons a kv ih =>
    intro hnd p hp
    simp only [List.map_cons, List.nodup_cons] at hnd
    cases hp with
    | head => simp [List.lookup]
    | tail _ hp =>
      have hne : p.1 ≠ a.1 := by
        intro h
        apply hnd.1
        rw [← h]
        exact List.mem_map_of_mem hp
      have : (p.1 == a.1) = false := by simpa using hne
      simp only [List.lookup, this]
      exact ih hnd.2 p hp

theorem expected_keys (segs : List Seg) (vals : List (List Char)) (h : Good segs vals) :
    (expected segs vals).map (·.1) = (pathArgs segs).map String.ofList := by
  induction segs generalizing vals with
  | nil => simp [expected, pathArgs]
  | cons sg r ih =>
    cases sg with
    | lit cs => simp only [Good] at h; simpa [expected, pathArgs] using ih vals h.2
    | var n mu =>
      cases vals with
      | nil => simp [Good] at h
      | cons v vs => simp only [Good] at h; simp [expected, pathArgs, ih vs h.2.2.2]

/-- **Round trip by name**: for every pattern with distinct variable names (whatever their
spelling) and all `Good` values, `<r>_path(**parse_<r>_path(<r>_path(*vals)))` is the path: the
parser's group names are exactly the builder's parameters. -/
theorem rebuild_by_name (t : ClassTables) (segs : List Seg) (vals : List (List Char))
    (h : Good segs vals) (hd : ((pathArgs segs).map String.ofList).Nodup) :
    buildKw segs (parse t segs (build segs vals)) = some (build segs vals) := by
  rw [parse_build_partial t segs vals h]
  apply buildKw_of_lookup segs vals _ h
  apply lookup_of_nodup_keys
  rw [expected_keys segs vals h]
  exact hd

/-- `keyRings/{keyRing}/cryptoKeys/{CryptoKey}/versions/{version_2=**}`: camelCase, Capitalised and
digit-holding names meet the hypotheses. -/
example :
    let segs := [.lit "keyRings/".toList, .var "keyRing".toList false, .lit "/cryptoKeys/".toList,
      .var "CryptoKey".toList false, .lit "/versions/".toList, .var "version_2".toList true]
    Good segs ["r-1".toList, "K".toList, "1/2".toList] ∧ ((pathArgs segs).map String.ofList).Nodup := by
  refine ⟨by simp [Good], by decide⟩

/-- the five common resources' patterns (`Service.common_resources`, bridged table
`Pinned.commonResources`), tokenised. -/
def commonSegs : List (List Seg) :=
  [[.lit "projects/".toList, .var "project".toList false],
   [.lit "organizations/".toList, .var "organization".toList false],
   [.lit "folders/".toList, .var "folder".toList false],
   [.lit "billingAccounts/".toList, .var "billing_account".toList false],
   [.lit "projects/".toList, .var "project".toList false, .lit "/locations/".toList, .var "location".toList false]]

/-- the tokenised forms ARE the patterns of the table extracted from the source. -/
theorem common_segs_are_the_table :
    commonSegs.map (fun s => String.ofList (render s)) = GapicModel.Pinned.commonResources.map (·.2) := by decide

/-- **the five common resources round-trip** for all values without `/` (the last one
unrestricted): each `common_<x>_path` / `parse_common_<x>_path` pair is emitted from
`path_regex_str` of these patterns. -/
theorem common_resources_roundtrip (t : ClassTables) (segs : List Seg) (hs : segs ∈ commonSegs)
    (vals : List (List Char)) (hv : NoDelim ['/'] segs vals) :
    parse t segs (build segs vals) = expected segs vals ∧
    build segs ((parse t segs (build segs vals)).map (·.2)) = build segs vals := by
  have hshape : Shape segs ∧ ∀ c ∈ delims segs, c ∈ ['/'] := by
    simp only [commonSegs, List.mem_cons, List.not_mem_nil, or_false] at hs
    rcases hs with h | h | h | h | h <;> subst h <;> simp [Shape, delims, followDelim]
  have hg := noDelim_good ['/'] segs vals hshape.1 hshape.2 hv
  exact ⟨parse_build_partial t segs vals hg, rebuild_partial t segs vals hg⟩

example : NoDelim ['/'] [.lit "projects/".toList, .var "project".toList false, .lit "/locations/".toList, .var "location".toList false]
    ["p-1".toList, "us/central1".toList] := by
  simp [NoDelim]

/-! ## Which resources a service sees, and which helper each one gets (Model/ResourceVis.lean) -/

section Visibility
open GapicModel.Model.ResourceVis GapicModel.Lemmas.C19Vis

/-- the property's "visible to a service", declaratively: a resource is visible iff some message
reachable (through message-typed fields, any depth, cycles allowed) from the request type or from the
response type of a method — for a long-running method the operation's `response_type` — either IS
that resource or has a field whose `resource_reference` (type or child_type) names it in the API-wide
table of file-level definitions and message resources (nested messages included). -/
def Visible (api : Api) (ms : List Method) (r : Res) : Prop :=
  ∃ me ∈ ms, ∃ root, (root = me.input ∨ root = me.effOutput) ∧
    ∃ n m, Reach api root n ∧ api.findMsg n = some m ∧
      (m.res = some r ∨ ∃ f ∈ m.fields, ∃ t, f.ref = some t ∧ lookupRes api t = some r)

theorem mem_msgResources (api : Api) (m : Message) (r : Res) :
    r ∈ msgResources api m ↔
      (m.res = some r ∨ ∃ f ∈ m.fields, ∃ t, f.ref = some t ∧ lookupRes api t = some r) := by
  simp only [msgResources, List.mem_append, Option.mem_toList, List.mem_filterMap]
  constructor
  · intro h
    cases h with
    | inl h => exact Or.inl h
    | inr h =>
      obtain ⟨f, hf, hb⟩ := h
      cases hr : f.ref with
      | none => simp [hr] at hb
      | some t => exact Or.inr ⟨f, hf, t, hr, by simpa [hr] using hb⟩
  · intro h
    cases h with
    | inl h => exact Or.inl h
    | inr h =>
      obtain ⟨f, hf, t, ht, hl⟩ := h
      exact Or.inr ⟨f, hf, by simp [ht, hl]⟩

theorem mem_resourcesOf (api : Api) (root : Name) (r : Res) :
    r ∈ resourcesOf api root ↔ ∃ n m, Reach api root n ∧ api.findMsg n = some m ∧
      (m.res = some r ∨ ∃ f ∈ m.fields, ∃ t, f.ref = some t ∧ lookupRes api t = some r) := by
  simp only [resourcesOf, List.mem_flatMap]
  constructor
  · intro h
    obtain ⟨n, hn, hr⟩ := h
    cases hm : api.findMsg n with
    | none => simp [nameResources, hm] at hr
    | some m =>
      simp only [nameResources, hm] at hr
      exact ⟨n, m, (mem_reachable_iff api root n).mp hn, hm, (mem_msgResources api m r).mp hr⟩
  · intro h
    obtain ⟨n, m, hn, hm, hr⟩ := h
    refine ⟨n, (mem_reachable_iff api root n).mpr hn, ?_⟩
    simp only [nameResources, hm]
    exact (mem_msgResources api m r).mpr hr

/-- **The helper set is exactly the visible set**: `Service.resource_messages` (as the set of
(type, first pattern) observables) holds a resource iff it is `Visible` — for every API, every
nesting depth, recursive messages included. -/
theorem service_resources_exactly_visible (api : Api) (ms : List Method) (r : Res) :
    r ∈ serviceResources api ms ↔ Visible api ms r := by
  simp only [serviceResources, List.mem_flatMap, List.mem_append, Visible]
  constructor
  · intro h
    obtain ⟨me, hme, hr⟩ := h
    cases hr with
    | inl h => exact ⟨me, hme, me.input, Or.inl rfl, (mem_resourcesOf api _ r).mp h⟩
    | inr h => exact ⟨me, hme, me.effOutput, Or.inr rfl, (mem_resourcesOf api _ r).mp h⟩
  · intro h
    obtain ⟨me, hme, root, hroot, hr⟩ := h
    refine ⟨me, hme, ?_⟩
    cases hroot with
    | inl h => subst h; exact Or.inl ((mem_resourcesOf api _ r).mpr hr)
    | inr h => subst h; exact Or.inr ((mem_resourcesOf api _ r).mpr hr)

/-- a resource carried by the response type of a long-running operation is visible even if nothing
else in the service mentions it (the clause seed4_C19 removed). -/
theorem lro_response_resource_visible (api : Api) (ms : List Method) (me : Method) (n : Name)
    (m : Message) (r : Res) (hme : me ∈ ms) (hl : me.lro = some n) (hm : api.findMsg n = some m)
    (hr : m.res = some r) : r ∈ serviceResources api ms := by
  rw [service_resources_exactly_visible]
  exact ⟨me, hme, me.effOutput, Or.inr rfl, n, m, by simp [Method.effOutput, hl]; exact Reach.refl _, hm, Or.inl hr⟩

/-- every referenced resource that is defined is visible, one helper each (the clause seed3_C19
collapsed): a field of the request naming a type the API-wide table knows. -/
theorem referenced_definition_visible (api : Api) (ms : List Method) (me : Method) (m : Message)
    (f : Field) (t : Name) (r : Res) (hme : me ∈ ms) (hm : api.findMsg me.input = some m)
    (hf : f ∈ m.fields) (ht : f.ref = some t) (hl : lookupRes api t = some r) :
    r ∈ serviceResources api ms := by
  rw [service_resources_exactly_visible]
  exact ⟨me, hme, me.input, Or.inl rfl, me.input, m, Reach.refl _, hm, Or.inr ⟨f, hf, t, ht, hl⟩⟩

/-- what the table can answer: a referenced resource has the type asked for and is a file-level
definition or the resource of a message (top-level or nested) of some file. -/
theorem lookup_is_defined (api : Api) (t : Name) (r : Res) (h : lookupRes api t = some r) :
    r.type = t ∧ ∃ f ∈ api.files, r ∈ f.defs ∨ ∃ n ∈ f.all, ∃ m, api.findMsg n = some m ∧ m.res = some r := by
  simp only [lookupRes] at h
  obtain ⟨f, hf, hp⟩ := List.exists_of_findSome?_eq_some h
  simp only [protoLookup] at hp
  have hty := List.find?_some hp
  have hmem := List.mem_of_find?_eq_some hp
  simp only [List.mem_reverse, List.mem_append, List.mem_filterMap] at hmem
  refine ⟨by simpa using hty, f, hf, ?_⟩
  cases hmem with
  | inl h => exact Or.inl h
  | inr h =>
    obtain ⟨n, hn, hb⟩ := h
    cases hm : api.findMsg n with
    | none => simp [hm] at hb
    | some m => exact Or.inr ⟨n, hn, m, hm, by simpa [hm] using hb⟩

/-- the `def`s of the class body: one pair per visible resource in emission order, then the common
resources' pairs under their own names (`common_<x>_path`); the last `def` of a name wins. -/
def offeredAll (nm : Res → Name) (rs : List Res) (common : List (Name × Res)) (h : Name) : Option Res :=
  match common.reverse.find? (fun c => c.1 == h) with
  | some c => some c.2
  | none => offered nm rs h

/-- **Every visible resource has its own helper**, whatever the emission order `rs` of the visible
set — provided helper names are distinct on it (`nm` is injective there) and none is the name of a
common-resource helper.  Both provisos are needed: see the two counterexamples below. -/
theorem helper_for_every_visible_resource (api : Api) (ms : List Method) (nm : Res → Name)
    (rs : List Res) (common : List (Name × Res)) (r : Res)
    (hperm : ∀ x, x ∈ rs ↔ x ∈ serviceResources api ms)
    (hinj : ∀ a ∈ rs, ∀ b ∈ rs, nm a = nm b → a = b)
    (hcommon : ∀ c ∈ common, c.1 ≠ nm r)
    (hv : Visible api ms r) : offeredAll nm rs common (nm r) = some r := by
  have hr : r ∈ rs := (hperm r).mpr ((service_resources_exactly_visible api ms r).mpr hv)
  have hnone : common.reverse.find? (fun c => c.1 == nm r) = none := by
    rw [List.find?_eq_none]
    intro c hc
    have := hcommon c (List.mem_reverse.mp hc)
    simpa using this
  simp only [offeredAll, hnone, offered]
  exact find_last nm r rs.reverse (fun a ha hn => hinj a (List.mem_reverse.mp ha) r hr hn) (List.mem_reverse.mpr hr)

end Visibility

/-! ## Non-vacuity: the hypotheses are satisfiable by a non-trivial input -/

/-- `shelves/{shelf}/books/{book=**}` with values `s-1`, `b/1` (a `/` inside the trailing variable). -/
example : Good [.lit "shelves/".toList, .var "shelf".toList false, .lit "/books/".toList, .var "book".toList true]
    ["s-1".toList, "b/1".toList] := by
  simp [Good]

/-- `projects/{project}/docs/{doc=**}` with values `p-1`, `2024/09/30/notes.txt`: any number of `/`
inside the trailing variable (not just one) lies inside `Good`. -/
example : Good [.lit "projects/".toList, .var "project".toList false, .lit "/docs/".toList, .var "doc".toList true]
    ["p-1".toList, "2024/09/30/notes.txt".toList] := by
  simp [Good]

/-- `users/{user}/settings` with the value `al/settings/ice`: the last variable before a singleton
suffix may hold the suffix itself (third disjunct of `Good`). -/
example : Good [.lit "users/".toList, .var "user".toList false, .lit "/settings".toList]
    ["al/settings/ice".toList] := by
  simp [Good]

/-- `as/{a}-{b}` : a non-slash separator between two variables of one segment. -/
example : Good [.lit "as/".toList, .var "a".toList false, .lit "-".toList, .var "b".toList false]
    ["xy".toList, "z".toList] := by
  simp [Good]

/-! ## What the hypotheses exclude: concrete counterexamples on the model (each is replayed on the
real code by the excluded-point stream of the C19 check) -/

private def tt : ClassTables := ⟨[], [], []⟩

/-- `.` as separator: `as/{a}.{b}` with `xy`, `z` now round-trips (it did not before the C19
`fix:` commit: the unescaped `.` matched the `y`).  Instance of `parse_build_partial`, kept as a
regression witness evaluated on the model. -/
theorem dot_separator_roundtrip :
    parse tt [.lit "as/".toList, .var "a".toList false, .lit ".".toList, .var "b".toList false]
      (build [.lit "as/".toList, .var "a".toList false, .lit ".".toList, .var "b".toList false] ["xy".toList, "z".toList])
    = [("a", "xy".toList), ("b", "z".toList)] := by decide

/-- a trailing `{v=**}` value of several segments (`a/b/c`, two `/`) round-trips.  Instance of
`parse_build_partial`, kept as a witness evaluated on the model (a regex that bounds the number
of segments of the `**` group breaks exactly this). -/
theorem multi_segment_tail_roundtrip :
    parse tt [.lit "p/".toList, .var "p".toList false, .lit "/d/".toList, .var "d".toList true]
      (build [.lit "p/".toList, .var "p".toList false, .lit "/d/".toList, .var "d".toList true] ["x".toList, "a/b/c".toList])
    = [("p", "x".toList), ("d", "a/b/c".toList)] := by decide

/-- the last variable before a singleton suffix may hold the suffix: `users/{user}/settings` with
`al/settings/ice`.  Instance of `parse_build_partial` (a regex that loses the `$` or the trailing
literal breaks exactly this), evaluated on the model. -/
theorem suffix_inside_last_value_roundtrip :
    parse tt [.lit "users/".toList, .var "user".toList false, .lit "/settings".toList]
      (build [.lit "users/".toList, .var "user".toList false, .lit "/settings".toList] ["al/settings/ice".toList])
    = [("user", "al/settings/ice".toList)] := by decide

/-- names with upper-case letters are carried as written, by the parser's groups too:
`rings/{keyRing}/vs/{cryptoKeyVersion=**}` (a builder that re-spells its parameters while the regex
keeps the names breaks `rebuild_by_name` at exactly this input).  Evaluated on the model. -/
theorem camel_case_variables_roundtrip :
    let segs := [.lit "rings/".toList, .var "keyRing".toList false, .lit "/vs/".toList, .var "cryptoKeyVersion".toList true]
    parse tt segs (build segs ["r".toList, "1/2".toList]) = [("keyRing", "r".toList), ("cryptoKeyVersion", "1/2".toList)] ∧
    buildKw segs (parse tt segs (build segs ["r".toList, "1/2".toList])) = some "rings/r/vs/1/2".toList := by decide

/-- a value containing a newline does not survive (`.` does not match `\n`). -/
theorem newline_counterexample :
    parse tt [.lit "p/".toList, .var "a".toList false] (build [.lit "p/".toList, .var "a".toList false] ["x\ny".toList])
    = [] := by decide

/-- an empty value does not survive (`.+?` needs one character). -/
theorem empty_segment_counterexample :
    parse tt [.lit "p/".toList, .var "a".toList false] (build [.lit "p/".toList, .var "a".toList false] [[]])
    = [] := by decide

/-- a value holding the separator that follows its variable — excluded by the property's own
quantifier and by `Good` — is split at the FIRST separator: `as/{a}-{b}` with `x-y`, `z`. -/
theorem delimiter_in_value_counterexample :
    parse tt [.lit "as/".toList, .var "a".toList false, .lit "-".toList, .var "b".toList false]
      (build [.lit "as/".toList, .var "a".toList false, .lit "-".toList, .var "b".toList false] ["x-y".toList, "z".toList])
    = [("a", "x".toList), ("b", "y-z".toList)] := by decide

/-- two variables with nothing between them (`p/{a}{b}`, outside `Shape`): the first one gets one
character. -/
theorem adjacent_variables_counterexample :
    parse tt [.lit "p/".toList, .var "a".toList false, .var "b".toList false]
      (build [.lit "p/".toList, .var "a".toList false, .var "b".toList false] ["xy".toList, "z".toList])
    = [("a", "x".toList), ("b", "yz".toList)] := by decide

/-- `Good` is weaker than the quantifier's exclusion: a value may hold a separator of the pattern
that does not follow ITS variable (`as/{a}-{b}_{c}` with `x_y`, `u`, `w`).  Witness evaluated on the
model; the same point is compared with the real code by the beyond-quantifier stream. -/
theorem other_separator_in_value_roundtrip :
    parse tt [.lit "as/".toList, .var "a".toList false, .lit "-".toList, .var "b".toList false, .lit "_".toList, .var "c".toList false]
      (build [.lit "as/".toList, .var "a".toList false, .lit "-".toList, .var "b".toList false, .lit "_".toList, .var "c".toList false]
        ["x_y".toList, "u".toList, "w".toList])
    = [("a", "x_y".toList), ("b", "u".toList), ("c", "w".toList)] := by decide

/-! ## Visibility: a concrete API, and what the hypotheses of `helper_for_every_visible_resource`
exclude -/

section VisibilityExamples
open GapicModel.Model.ResourceVis GapicModel.Lemmas.C19Vis

private def rA : Res := ⟨"l/Alpha".toList, "as/{a}".toList⟩
private def rB : Res := ⟨"o/Bravo".toList, "bs/{b}".toList⟩
private def rO : Res := ⟨"l/Out".toList, "os/{o=**}".toList⟩
private def rU : Res := ⟨"o/Unused".toList, "us/{u}".toList⟩

/-- request `Rq` refers to the file-level `o/Bravo` and has a field of the recursive message `Mid`,
which holds an `Alpha`; the method is long-running with response type `Out`; `o/Unused` is defined
but never referenced. -/
private def demoApi : Api :=
  { files := [⟨[rB, rU], ["Rq".toList, "Mid".toList, "Alpha".toList, "Out".toList]⟩],
    msgs := [⟨"Rq".toList, [⟨none, some "o/Bravo".toList⟩, ⟨some "Mid".toList, none⟩], none⟩,
             ⟨"Mid".toList, [⟨some "Mid".toList, none⟩, ⟨some "Alpha".toList, none⟩], none⟩,
             ⟨"Alpha".toList, [⟨none, none⟩], some rA⟩,
             ⟨"Out".toList, [], some rO⟩,
             ⟨"Op".toList, [], none⟩] }
private def demoMethods : List Method := [⟨"Rq".toList, "Op".toList, some "Out".toList⟩]

/-- the model on that API: the referenced definition, the resource two levels down a recursive
message, the LRO response type; not the unreferenced definition. -/
theorem demo_service_resources : serviceResources demoApi demoMethods = [rA, rB, rO] := by decide

/-- the hypotheses of `helper_for_every_visible_resource` hold for it (emission order = any
permutation; here reversed), with the short type name as helper name. -/
example : (∀ x, x ∈ [rO, rA, rB] ↔ x ∈ serviceResources demoApi demoMethods) ∧
    (∀ a ∈ [rO, rA, rB], ∀ b ∈ [rO, rA, rB], shortName a.type = shortName b.type → a = b) ∧
    (∀ c ∈ [("common_project".toList, rU)], c.1 ≠ shortName rA.type) ∧ Visible demoApi demoMethods rA := by
  refine ⟨?_, by decide, by decide, ?_⟩
  · intro x; rw [demo_service_resources]; simp only [List.mem_cons, List.not_mem_nil, or_false]
    constructor <;> (intro h; rcases h with h | h | h <;> simp [h])
  · exact (service_resources_exactly_visible demoApi demoMethods rA).mp (by rw [demo_service_resources]; simp)

/-- **helper-name collision** (injectivity proviso; listed finding `helper-name-collision:same-short-name`):
two visible resources whose types share the short name get one helper — the pattern of
`bar.example.com/Thing` has none, `thing_path` is the other resource's. -/
theorem helper_name_collision_counterexample :
    let bar : Res := ⟨"bar.example.com/Thing".toList, "bars/{bar}/things/{thing}".toList⟩
    let foo : Res := ⟨"foo.example.com/Thing".toList, "foos/{foo}/things/{thing}".toList⟩
    offeredAll (fun r => shortName r.type) [bar, foo] [] (shortName bar.type) = some foo := by decide

/-- **collision with a common-resource helper** (second proviso): a visible resource whose helper
name is `common_project` loses its helper to the common resource `Project`, whose `def` comes later. -/
theorem common_prefix_collision_counterexample :
    let mine : Res := ⟨"lib.example.com/common_project".toList, "foos/{foo}".toList⟩
    let proj : Res := ⟨"cloudresourcemanager.googleapis.com/Project".toList, "projects/{project}".toList⟩
    offeredAll (fun r => shortName r.type) [mine] [("common_project".toList, proj)] (shortName mine.type) = some proj := by decide

/-- **regression (was `nested_resource_reference_counterexample` before /repo 109fab8)**: a resource
declared on a NESTED message and only referred to by name IS visible — `Proto.resource_messages`
now lists every message of the file, so `visible_resources.get` finds it and the helper pair is
emitted.  Same input as the former counterexample. -/
theorem nested_resource_reference_regression :
    let inner : Res := ⟨"l/Inner".toList, "inners/{inner}".toList⟩
    let api : Api := { files := [⟨[], ["Outer.Inner".toList, "Outer".toList, "Rq".toList]⟩],
                       msgs := [⟨"Outer".toList, [⟨none, none⟩], none⟩,
                                ⟨"Outer.Inner".toList, [⟨none, none⟩], some inner⟩,
                                ⟨"Rq".toList, [⟨none, some "l/Inner".toList⟩], none⟩,
                                ⟨"E".toList, [], none⟩] }
    serviceResources api [⟨"Rq".toList, "E".toList, none⟩] = [inner] ∧
    offeredAll (fun r => shortName r.type) (serviceResources api [⟨"Rq".toList, "E".toList, none⟩]) []
      "Inner".toList = some inner := by decide

/-- **a resource the API itself declares under a common resource TYPE** (file-level
`locations.googleapis.com/Location` with its own pattern, only named by the request) is an ordinary
visible resource: it gets `location_path` for ITS pattern next to `common_location_path` for the
built-in one — the names differ, so neither proviso of `helper_for_every_visible_resource` bites
(the clause seed6_C19 removed). -/
theorem common_typed_declared_resource_regression :
    let own : Res := ⟨"locations.googleapis.com/Location".toList, "organizations/{organization}/locations/{location}".toList⟩
    let builtin : Res := ⟨"locations.googleapis.com/Location".toList, "projects/{project}/locations/{location}".toList⟩
    let api : Api := { files := [⟨[own], ["Rq".toList, "E".toList]⟩],
                       msgs := [⟨"Rq".toList, [⟨none, some "locations.googleapis.com/Location".toList⟩], none⟩,
                                ⟨"E".toList, [], none⟩] }
    let rs := serviceResources api [⟨"Rq".toList, "E".toList, none⟩]
    let nm : Res → Name := fun r => (shortName r.type).map Char.toLower
    rs = [own] ∧
    offeredAll nm rs [("common_location".toList, builtin)] "location".toList = some own ∧
    offeredAll nm rs [("common_location".toList, builtin)] "common_location".toList = some builtin := by decide

end VisibilityExamples

end GapicModel.Props.C19
