import GapicModel.Model.PathHelpers
import GapicModel.Lemmas.Regex
import GapicModel.Pinned.CharClass
/-
C19 — resource path helpers build and parse names as mutual inverses.
Property theorems only (helper lemmas about this model are in the `private`/`Aux` section
at the top because they are specific to it).  No Mathlib.
-/
namespace GapicModel.Props.C19
open GapicModel.Regex GapicModel.Model.PathHelpers

/-- Hypotheses under which the round trip is proved (DESIGN §7.19):
  * literal text contains no newline;
  * every value is non-empty and newline-free;
  * a variable is followed by a non-empty literal whose first character does not occur in the
    variable's value, or it ends the pattern (so the last variable may contain `/`). -/
def Good : List Seg → List (List Char) → Prop
  | [], vs => vs = []
  | .lit cs :: r, vs => '\n' ∉ cs ∧ Good r vs
  | .var _ _ :: r, vs =>
      match vs with
      | [] => False
      | v :: vs' =>
        v ≠ [] ∧ '\n' ∉ v ∧
        (match r with
         | [] => True
         | .lit (c :: _) :: _ => c ∉ v
         | _ => False) ∧ Good r vs'

/-- captures produced by a successful parse, most recent first (as the matcher stores them). -/
def capsP : Nat → List Seg → List (List Char) → List (Nat × List Char) → List (Nat × List Char)
  | _, [], _, acc => acc
  | i, .lit _ :: r, vs, acc => capsP i r vs acc
  | i, .var _ _ :: r, v :: vs, acc => capsP (i+1) r vs ((i, v) :: acc)
  | i, .var _ _ :: r, [], acc => capsP (i+1) r [] acc

section Aux

theorem lit_fail (t : ClassTables) (c : Char) (cs : List Char) (r : List Re) (pre rest caps) (k : K)
    (h : ∀ d tl, rest = d :: tl → d ≠ c) (hne : rest ≠ []) :
    m t (seqR ((c :: cs).map .chr ++ r)) ⟨pre, rest, caps⟩ k = none := by
  cases rest with
  | nil => exact absurd rfl hne
  | cons d tl =>
    have hd := h d tl rfl
    simp only [List.map_cons, List.cons_append, m_seqR_cons, m]
    simp [Ne.symm hd]

/-- the matcher, run on a built path, consumes it entirely and records exactly the values. -/
theorem match_build (t : ClassTables) : ∀ (segs : List Seg) (vals : List (List Char)) (i : Nat),
    Good segs vals →
    ∀ (pre : List Char) (caps : List (Nat × List Char)),
    m t (seqR (segItems i segs ++ [.eol])) ⟨pre, build segs vals, caps⟩ some
      = some ⟨(build segs vals).reverse ++ pre, [], capsP i segs vals caps⟩ := by
  intro segs
  induction segs with
  | nil =>
    intro vals i h pre caps
    simp [Good] at h
    subst h
    simp [segItems, build, capsP, seqR, m]
  | cons sg r ih =>
    intro vals i h pre caps
    cases sg with
    | lit cs =>
      simp only [Good] at h
      obtain ⟨hnl, hg⟩ := h
      simp only [segItems, litItems, build, capsP, List.append_assoc]
      rw [m_seqR_chrs]
      simp only [List.prefix_append, if_true, adv]
      have := ih vals i hg (cs.reverse ++ pre) caps
      simpa using this
    | var n mu =>
      cases vals with
      | nil => simp [Good] at h
      | cons v vs =>
        simp only [Good] at h
        obtain ⟨hne, hnl, hnext, hgood⟩ := h
        cases v with
        | nil => exact absurd rfl hne
        | cons d x =>
          have hd : d ≠ '\n' := by intro hh; apply hnl; simp [hh]
          have hx : '\n' ∉ x := by intro hh; apply hnl; simp [hh]
          simp only [segItems, build, capsP, List.cons_append, m_seqR_cons, varRe, m]
          simp only [hd, ne_eq, not_false_eq_true, if_true]
          have hstar := star_any_lazy t
            (fun s' => m t (seqR (segItems (i+1) r ++ [.eol]))
              { s' with caps := (i, capture ⟨pre, d :: (x ++ build r vs), caps⟩ s') :: s'.caps } some)
            ⟨d :: pre, x ++ build r vs, caps⟩
          simp only [m] at hstar
          rw [hstar]
          rw [lazySpec_skip _ caps x (d :: pre) (build r vs) hx]
          · have hk := ih vs (i+1) hgood (x.reverse ++ d :: pre) ((i, d :: x) :: caps)
            have hcap : capture ⟨pre, d :: (x ++ build r vs), caps⟩ ⟨x.reverse ++ d :: pre, build r vs, caps⟩ = d :: x := by
              simp only [capture]
              have h1 : (x.reverse ++ d :: pre).length - pre.length = (x.reverse ++ [d]).length := by simp; omega
              rw [h1]
              have h2 : x.reverse ++ d :: pre = (x.reverse ++ [d]) ++ pre := by simp
              rw [h2, List.take_left']
              · simp
              · rfl
            cases hb : build r vs with
            | nil =>
              simp only [lazySpec]
              rw [← hb, hcap]
              simp only [hb] at hk ⊢
              simpa using hk
            | cons e tl =>
              simp only [lazySpec]
              rw [← hb, hcap]
              simp only [hb] at hk ⊢
              simp only [List.reverse_cons, List.append_assoc] at hk ⊢
              simp [hk, Option.orElse]
          · intro j hj
            cases r with
            | nil =>
              simp only [segItems, List.nil_append, seqR]
              apply eol_fail
              · simp; omega
              · intro hh; apply hx
                simp only [build, List.append_nil] at hh
                exact List.mem_of_mem_drop hh
            | cons sg2 r2 =>
              cases sg2 with
              | var _ _ => simp at hnext
              | lit cs2 =>
                cases cs2 with
                | nil => simp at hnext
                | cons c cs3 =>
                  have := lit_fail t c cs3 (segItems (i+1) r2 ++ [.eol])
                  simp only [segItems, litItems, List.map_cons, List.cons_append, List.append_assoc] at this ⊢
                  apply this
                  · intro e tl he
                    have hmem : e ∈ x := by
                      have hdrop : x.drop j ≠ [] := by simp; omega
                      cases hxd : x.drop j with
                      | nil => exact absurd hxd hdrop
                      | cons e' t' =>
                        rw [hxd] at he
                        simp at he
                        have : e' ∈ x.drop j := by rw [hxd]; simp
                        rw [← he.1]; exact List.mem_of_mem_drop this
                    intro hec; subst hec
                    apply hnext; simp [hmem]
                  · simp; omega

/-- the dictionary a successful parse of a built path is expected to return (in group order). -/
def expected : List Seg → List (List Char) → List (String × List Char)
  | [], _ => []
  | .lit _ :: r, vs => expected r vs
  | .var n _ :: r, v :: vs => (String.ofList n, v) :: expected r vs
  | .var _ _ :: r, [] => expected r []

theorem group_capsP_lt : ∀ (segs : List Seg) (vs) (i : Nat) (acc) (j : Nat), j < i →
    St.group? (capsP i segs vs acc) j = St.group? acc j := by
  intro segs
  induction segs with
  | nil => intros; rfl
  | cons sg r ih =>
    intro vs i acc j hj
    cases sg with
    | lit cs => simpa [capsP] using ih vs i acc j hj
    | var n mu =>
      cases vs with
      | nil => simpa [capsP] using ih [] (i+1) acc j (by omega)
      | cons v vs =>
        simp only [capsP]
        rw [ih vs (i+1) ((i, v) :: acc) j (by omega)]
        have : (i == j) = false := by simp; omega
        simp [St.group?, List.find?, this]

theorem groupdict_capsP : ∀ (segs : List Seg) (vals) (i : Nat) (acc), Good segs vals →
    (namesFrom i segs).map (fun (n, j) => (n, (St.group? (capsP i segs vals acc) j).getD []))
      = expected segs vals := by
  intro segs
  induction segs with
  | nil => intros; rfl
  | cons sg r ih =>
    intro vals i acc h
    cases sg with
    | lit cs =>
      simp only [Good] at h
      simpa [namesFrom, capsP, expected] using ih vals i acc h.2
    | var n mu =>
      cases vals with
      | nil => simp [Good] at h
      | cons v vs =>
        simp only [Good] at h
        simp only [namesFrom, capsP, expected, List.map_cons]
        rw [group_capsP_lt r vs (i+1) ((i, v) :: acc) i (by omega)]
        have := ih vs (i+1) ((i, v) :: acc) h.2.2.2
        simpa [St.group?, List.find?] using this

theorem expected_values : ∀ (segs : List Seg) (vals), Good segs vals →
    (expected segs vals).map (·.2) = vals := by
  intro segs
  induction segs with
  | nil => intro vals h; simp [Good] at h; simp [expected, h]
  | cons sg r ih =>
    intro vals h
    cases sg with
    | lit cs => simp only [Good] at h; simpa [expected] using ih vals h.2
    | var n mu =>
      cases vals with
      | nil => simp [Good] at h
      | cons v vs => simp only [Good] at h; simp [expected, ih vs h.2.2.2]

end Aux

/-! ## Property theorems -/

/-- The wildcard pattern `*` never rejects and never raises: the helper returns `{}` for
every string (the regex `^.*$` has no named group, so "accepts anything" is all it can say). -/
theorem wildcard_accepts_all (t : ClassTables) (s : List Char) : parse t [.lit ['*']] s = [] := by
  simp only [parse, pathRegex, if_true]
  cases pyMatch t (seqR [Re.bol, Re.star Re.any true, Re.eol]) s <;> simp [groupdict]

/-- **Round trip, parse ∘ build** (partial: under `Good`).  For every tokenised pattern and every
list of values satisfying `Good`, the emitted `parse_<r>_path(<r>_path(*vals))` returns exactly
the (name, value) pairs.  Holds for any `\\s\\w\\d` tables (the regex uses none).  Since the C19
`fix:` commit no hypothesis on the literal text is needed beyond "no newline": separators such
as `.` are covered. -/
theorem parse_build_partial (t : ClassTables) (segs : List Seg) (vals : List (List Char))
    (h : Good segs vals) :
    parse t segs (build segs vals) = expected segs vals := by
  by_cases hw : segs = [.lit ['*']]
  · subst hw
    rw [wildcard_accepts_all]
    rfl
  · have hm := match_build t segs vals 1 h [] []
    simp only [parse, pathRegex, hw, if_false]
    simp only [pyMatch, matchAt]
    rw [show (Re.bol :: segItems 1 segs ++ [Re.eol]) = Re.bol :: (segItems 1 segs ++ [Re.eol]) from rfl, m_seqR_cons]
    simp only [m, if_true, hm, Option.map, groupdict]
    exact groupdict_capsP segs vals 1 [] h

/-- **Round trip, build ∘ parse ∘ build** (partial: under `Good`): rebuilding from the parsed
segments returns the path. -/
theorem rebuild_partial (t : ClassTables) (segs : List Seg) (vals : List (List Char))
    (h : Good segs vals) :
    build segs ((parse t segs (build segs vals)).map (·.2)) = build segs vals := by
  rw [parse_build_partial t segs vals h, expected_values segs vals h]

/-- A string that does not match the pattern parses to the empty dict. -/
theorem nonmatch_empty (t : ClassTables) (segs : List Seg) (s : List Char)
    (hn : pyMatch t (pathRegex segs).re s = none) : parse t segs s = [] := by
  simp [parse, hn]

/-- `<name>_path` takes exactly the pattern's variables, in order. -/
theorem args_are_variables (segs : List Seg) :
    (namesFrom 1 segs).map (·.1) = (pathArgs segs).map String.ofList := by
  suffices h : ∀ i, (namesFrom i segs).map (·.1) = (pathArgs segs).map String.ofList from h 1
  induction segs with
  | nil => intro; rfl
  | cons sg r ih => intro i; cases sg <;> simp [namesFrom, pathArgs, ih]

/-! ## Non-vacuity: the hypotheses are satisfiable by a non-trivial input -/

/-- `shelves/{shelf}/books/{book=**}` with values `s-1`, `b/1` (a `/` inside the trailing variable). -/
example : Good [.lit "shelves/".toList, .var "shelf".toList false, .lit "/books/".toList, .var "book".toList true]
    ["s-1".toList, "b/1".toList] := by
  simp [Good]

/-- `as/{a}-{b}` : a non-slash separator between two variables of one segment. -/
example : Good [.lit "as/".toList, .var "a".toList false, .lit "-".toList, .var "b".toList false]
    ["xy".toList, "z".toList] := by
  simp [Good]

/-! ## What the hypotheses exclude: concrete counterexamples on the model (each is replayed on the
real code by the excluded-point stream of the C19 check) -/

private def tt : ClassTables := ⟨[], [], []⟩

/-- `.` as separator: `as/{a}.{b}` with `xy`, `z` now round-trips (it did not before the C19
`fix:` commit: the unescaped `.` matched the `y`).  Instance of `parse_build_partial`, kept as a
regression witness evaluated on the model. -/
theorem dot_separator_roundtrip :
    parse tt [.lit "as/".toList, .var "a".toList false, .lit ".".toList, .var "b".toList false]
      (build [.lit "as/".toList, .var "a".toList false, .lit ".".toList, .var "b".toList false] ["xy".toList, "z".toList])
    = [("a", "xy".toList), ("b", "z".toList)] := by decide

/-- a value containing a newline does not survive (`.` does not match `\n`). -/
theorem newline_counterexample :
    parse tt [.lit "p/".toList, .var "a".toList false] (build [.lit "p/".toList, .var "a".toList false] ["x\ny".toList])
    = [] := by decide

/-- an empty value does not survive (`.+?` needs one character). -/
theorem empty_segment_counterexample :
    parse tt [.lit "p/".toList, .var "a".toList false] (build [.lit "p/".toList, .var "a".toList false] [[]])
    = [] := by decide

end GapicModel.Props.C19
