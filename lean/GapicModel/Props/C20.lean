import GapicModel.Model.Whitespace
import GapicModel.Model.Wrap
import GapicModel.Lemmas.RegexSound
import GapicModel.Lemmas.WsRegex
import GapicModel.Lemmas.Textwrap
import GapicModel.Lemmas.WrapWhole
import GapicModel.Lemmas.WrapWidth
import GapicModel.Lemmas.RstWords
import GapicModel.Lemmas.CodeLines
import GapicModel.Lemmas.FixWsRuns
import GapicModel.Pinned.Funcs
import GapicModel.PyRt
/-
C20 — whitespace clean-up never changes code meaning (fix_whitespace part).
Property theorems at the end; `section Aux` holds lemmas specific to them.  No Mathlib.
-/
namespace GapicModel.Props.C20
open GapicModel GapicModel.Regex GapicModel.Model.Whitespace

/-- the non-whitespace characters of a text, in order -/
def nonWs (t : ClassTables) (s : List Char) : List Char := s.filter (fun c => !isWs t c)

section Aux

theorem nonWs_append (t) (a b : List Char) : nonWs t (a ++ b) = nonWs t a ++ nonWs t b := by
  simp [nonWs]

theorem nonWs_all_ws (t) (w : List Char) (h : ∀ c ∈ w, isWs t c = true) : nonWs t w = [] := by
  simp only [nonWs, List.filter_eq_nil_iff]
  intro c hc; simp [h c hc]

/-- generic: if every match is replaced by text with the same non-whitespace content, `sub` preserves it -/
theorem subLoop_nonWs (t : ClassTables) (r : Re) (repl : List RItem)
    (hstep : ∀ pre rest st, matchAt t r pre rest = some st →
      ∃ w, rest = w ++ st.rest ∧ nonWs t (expand st.caps repl) = nonWs t w) :
    ∀ n pre rest, nonWs t (subLoop t r repl n pre rest) = nonWs t rest := by
  intro n
  induction n with
  | zero => intros; rfl
  | succ n ih =>
    intro pre rest
    cases rest with
    | nil => rfl
    | cons c cs =>
      simp only [subLoop]
      cases hm : matchAt t r pre (c :: cs) with
      | none => simp only [nonWs, List.filter_cons]; rw [show List.filter (fun c => !isWs t c) (subLoop t r repl n (c :: pre) cs) = nonWs t (subLoop t r repl n (c :: pre) cs) from rfl, ih]; rfl
      | some st =>
        simp only
        by_cases hl : st.rest.length < (c :: cs).length
        · simp only [hl, if_true]
          obtain ⟨w, hw, he⟩ := hstep pre (c :: cs) st hm
          rw [nonWs_append, ih, he, hw, nonWs_append]
        · simp only [hl, if_false]
          simp only [nonWs, List.filter_cons]
          rw [show List.filter (fun c => !isWs t c) (subLoop t r repl n (c :: pre) cs) = nonWs t (subLoop t r repl n (c :: pre) cs) from rfl, ih]; rfl

theorem pySub_nonWs (t : ClassTables) (r : Re) (repl : List RItem)
    (hstep : ∀ pre rest st, matchAt t r pre rest = some st →
      ∃ w, rest = w ++ st.rest ∧ nonWs t (expand st.caps repl) = nonWs t w) (s : List Char) :
    nonWs t (pySub t r repl s) = nonWs t s :=
  subLoop_nonWs t r repl hstep _ _ _

theorem matchAt_run {t r pre rest st} (h : matchAt t r pre rest = some st) : Run t r ⟨pre, rest, []⟩ st := by
  obtain ⟨s', hr, hk⟩ := m_sound t r ⟨pre, rest, []⟩ some st h
  cases hk
  exact hr

abbrev T := Pinned.classTables

theorem ws_space : isWs T ' ' = true := by decide
theorem ws_nl : isWs T '\n' = true := by decide
theorem wsRe_SP : wsRe T SP = true := by decide
theorem wsRe_SS : wsRe T SS = true := by decide
theorem wsRe_NL : wsRe T NL = true := by decide

theorem ws1_step : ∀ pre rest st, matchAt T ws1Re pre rest = some st →
    ∃ w, rest = w ++ st.rest ∧ nonWs T (expand st.caps ws1Repl) = nonWs T w := by
  intro pre rest st h
  have hr := matchAt_run h
  have hw : wsRe T ws1Re = true := by decide
  obtain ⟨w, h1, _, _, ha⟩ := hr.ws hw
  refine ⟨w, h1, ?_⟩
  rw [nonWs_all_ws T w ha]
  simp [ws1Repl, expand, nonWs, ws_nl]

theorem ws2_step : ∀ pre rest st, matchAt T ws2Re pre rest = some st →
    ∃ w, rest = w ++ st.rest ∧ nonWs T (expand st.caps ws2Repl) = nonWs T w := by
  intro pre rest st h
  have hr := matchAt_run h
  unfold ws2Re at hr
  obtain ⟨s1, w1, hr, e1, c1, a1⟩ := hr.ws_prefix wsRe_SP
  obtain ⟨s2, w2, hr, e2, c2, a2⟩ := hr.ws_prefix wsRe_NL
  obtain ⟨s3, w3, hr, e3, c3, a3⟩ := hr.ws_prefix wsRe_SS
  obtain ⟨s4, w4, hr, e4, c4, a4⟩ := hr.ws_prefix wsRe_NL
  obtain ⟨s5, w5, hr, e5, c5, a5⟩ := hr.ws_prefix wsRe_SS
  obtain ⟨s6, w6, hr, e6, c6, a6⟩ := hr.ws_prefix wsRe_NL
  have n1 := nonWs_all_ws T w1 a1; have n2 := nonWs_all_ws T w2 a2; have n3 := nonWs_all_ws T w3 a3
  have n4 := nonWs_all_ws T w4 a4; have n5 := nonWs_all_ws T w5 a5; have n6 := nonWs_all_ws T w6 a6
  obtain ⟨s7, hr7, hst⟩ := hr.group_inv
  obtain ⟨g, eg, pg⟩ := hr7.consumed
  have hcap : capture s6 s7 = g := capture_eq pg
  refine ⟨w1 ++ w2 ++ w3 ++ w4 ++ w5 ++ w6 ++ g, ?_, ?_⟩
  · simp only [] at e1
    rw [e1, e2, e3, e4, e5, e6, eg, hst]; simp
  · rw [hst]
    simp only [ws2Repl, expand, St.group?, List.find?, hcap, beq_self_eq_true, Option.map, Option.getD]
    simp only [nonWs_append, n1, n2, n3, n4, n5, n6, List.nil_append, List.append_nil]
    simp [nonWs, ws_nl]

theorem ws3_step : ∀ pre rest st, matchAt T ws3Re pre rest = some st →
    ∃ w, rest = w ++ st.rest ∧ nonWs T (expand st.caps ws3Repl) = nonWs T w := by
  intro pre rest st h
  have hr := matchAt_run h
  unfold ws3Re at hr
  obtain ⟨s1, w1, hr, e1, c1, a1⟩ := hr.ws_prefix wsRe_SP
  obtain ⟨s2, w2, hr, e2, c2, a2⟩ := hr.ws_prefix wsRe_NL
  obtain ⟨s3, w3, hr, e3, c3, a3⟩ := hr.ws_prefix wsRe_SS
  obtain ⟨s4, w4, hr, e4, c4, a4⟩ := hr.ws_prefix wsRe_NL
  have n1 := nonWs_all_ws T w1 a1; have n2 := nonWs_all_ws T w2 a2; have n3 := nonWs_all_ws T w3 a3
  have n4 := nonWs_all_ws T w4 a4
  obtain ⟨s5, hg1, hg3⟩ := hr.seq_inv
  obtain ⟨s5', hr5, hs5⟩ := hg1.group_inv
  obtain ⟨g1, eg1, pg1⟩ := hr5.consumed
  have hcap1 : capture s4 s5' = g1 := capture_eq pg1
  obtain ⟨s6, hr6, hst⟩ := hg3.group_inv
  obtain ⟨g3, eg3, pg3⟩ := hr6.consumed
  have hcap3 : capture s5 s6 = g3 := capture_eq pg3
  refine ⟨w1 ++ w2 ++ w3 ++ w4 ++ g1 ++ g3, ?_, ?_⟩
  · simp only [] at e1
    have : s5.rest = s5'.rest := by rw [hs5]
    rw [e1, e2, e3, e4, eg1, ← this, eg3, hst]; simp
  · have hc6 : s6.caps = s5.caps := by
      -- C3 is a single character class: its run records no capture
      cases hr6 with
      | cls _ _ _ d r _ _ => rfl
    rw [hcap3] at hst
    rw [hst, hc6, hs5]
    simp only [ws3Repl, expand, St.group?, List.find?, hcap1, beq_self_eq_true, Option.map, Option.getD]
    have h31 : ((3 : Nat) == 1) = false := by decide
    simp only [h31]
    simp only [nonWs_append, n1, n2, n3, n4, List.nil_append, List.append_nil]
    simp [nonWs, ws_nl]

theorem rstrip_nonWs (t) (s : List Char) : nonWs t (rstrip t s) = nonWs t s := by
  unfold rstrip
  suffices h : ∀ l : List Char, nonWs t ((l.dropWhile (isWs t)).reverse) = nonWs t l.reverse by
    simpa using h s.reverse
  intro l
  induction l with
  | nil => rfl
  | cons c l ih =>
    by_cases hc : isWs t c = true
    · simp only [List.dropWhile_cons, hc, if_true, List.reverse_cons, nonWs_append]
      rw [ih]; simp [nonWs, hc]
    · simp [List.dropWhile_cons, hc]

theorem rstrip_last_not_ws (t) (s : List Char) : ∀ c, (rstrip t s).getLast? = some c → isWs t c = false := by
  intro c h
  unfold rstrip at h
  rw [List.getLast?_reverse] at h
  cases hd : s.reverse.dropWhile (isWs t) with
  | nil => simp [hd] at h
  | cons d l =>
    rw [hd] at h
    simp at h
    subst h
    have := List.head_dropWhile_not (isWs t) (l := s.reverse) (by simp [hd])
    simpa [hd] using this

end Aux

/-! ## Property theorems (fix_whitespace) -/

/-- the structural patterns above ARE the pinned translator output (which the bridge lemmas tie to /repo) -/
theorem patterns_are_pinned :
    Pinned.fixws1.re = ws1Re ∧ Pinned.fixws2.re = ws2Re ∧ Pinned.fixws3.re = ws3Re ∧
    Pinned.fixws1Repl = ws1Repl ∧ Pinned.fixws2Repl = ws2Repl ∧ Pinned.fixws3Repl = ws3Repl := by decide

/-- **The post-processor only removes (or rewrites) whitespace**: the sequence of non-whitespace
characters of any text — in particular of any Python source — is unchanged.  Every input, no bound. -/
theorem fix_only_removes_whitespace (s : List Char) : nonWs T (fixWhitespace s) = nonWs T s := by
  unfold fixWhitespace fixWhitespaceWith
  rw [nonWs_append, rstrip_nonWs, pySub_nonWs T ws3Re ws3Repl ws3_step, pySub_nonWs T ws2Re ws2Repl ws2_step,
    pySub_nonWs T ws1Re ws1Repl ws1_step]
  simp [nonWs, ws_nl]

/-- **The result ends with exactly one newline**: it is `body ++ "\n"` where `body` is empty or ends
in a non-whitespace character (so in particular not in a second newline). -/
theorem fix_ends_one_newline (s : List Char) :
    ∃ body, fixWhitespace s = body ++ ['\n'] ∧ ∀ c, body.getLast? = some c → isWs T c = false := by
  unfold fixWhitespace fixWhitespaceWith
  exact ⟨_, rfl, rstrip_last_not_ws T _⟩

/-- **The whitespace post-processor only removes trailing blanks and surplus blank lines**: for EVERY source
text, the code lines of `fix_whitespace(code)` — the non-blank lines, right-stripped, each with its indentation,
in order (`Lemmas.CodeLines.codeLines`) — are exactly the code lines of `code`. No line is joined, split,
re-indented, dropped or reordered; what changes is only whitespace at line ends and the number of blank lines
(so the Python token stream outside multi-line string literals, and with it the AST, is the same: that last
step is argued in DESIGN §7.20 and checked by the oracle with `ast.dump`, not proved here). Proof: each of the
three extracted patterns can only match a blank stretch ending in a line break followed by kept text
(`ws1_ctx`/`ws2_ctx`/`ws3_ctx`, through the regex engine's soundness theorem), and any two such stretches are
interchangeable in every context (`ctx_blank_nl`). -/
theorem fix_preserves_code_lines (s : List Char) :
    Lemmas.CodeLines.codeLines (fixWhitespace s) = Lemmas.CodeLines.codeLines s :=
  Lemmas.CodeLines.fixWhitespace_codeLines s

/-- non-vacuity: a source whose blank-line runs and trailing blanks really change, with nested indentation -/
example : Lemmas.CodeLines.codeLines (fixWhitespace "x = 1  \n\n\n\n\ndef f():\n    a = 1\n\n\n    b = 2\n\n\n".toList)
    = ["x = 1".toList, "def f():".toList, "    a = 1".toList, "    b = 2".toList] ∧
    fixWhitespace "x = 1  \n\n\n\n\ndef f():\n    a = 1\n\n\n    b = 2\n\n\n".toList
      ≠ "x = 1  \n\n\n\n\ndef f():\n    a = 1\n\n\n    b = 2\n\n\n".toList := by decide

/-- **`fix_whitespace` is idempotent** — for EVERY text, formatting the formatter's output again changes nothing
(the clause "is idempotent" of C20, at full strength, no hypothesis on the text).  Proof (Lemmas/FixWsRuns.lean,
Lemmas/MapRuns.lean, Lemmas/RegexComplete.lean): each of the three `re.sub` passes is shown to be EQUAL to a run-local
rewriting of the maximal whitespace runs of the text (`pass1_eq`, `pass2_eq`, `pass3_eq` — the regex engine's
soundness gives the shape of every reported match, its completeness for look-free patterns gives that a position the
left-most search skipped admits no match), so the whole function is one such pass followed by `rstrip() + "\n"`
(`fix_is_one_pass_over_runs`); passes that keep runs non-empty and white compose run by run (`mapRuns_fuse`), and the
composed per-run rewriter is idempotent by cases on which pass fires (`H_idem`). -/
theorem fix_idempotent (s : List Char) : fixWhitespace (fixWhitespace s) = fixWhitespace s :=
  Lemmas.FixWsRuns.fixWhitespace_idem s

/-- what `fix_whitespace` computes, exactly: every maximal run `R` of whitespace is replaced by `H R la` (`la` the
token that follows): spaces before line breaks dropped; then `"\n\n\n"` if `R` has the shape `\s+\n\s*\n\s*\n` in
front of `class|def|@|#|_`, else `"\n\n" ++ indent` if it has the shape `\s+\n\s*\n(    )+` in front of a word
character, `_`, `@` or `#`; nothing else in the text is touched; then `rstrip() + "\n"`. -/
theorem fix_is_one_pass_over_runs (s : List Char) :
    fixWhitespace s = Lemmas.MapRuns.tailF (isWs T) (Lemmas.MapRuns.mapRuns (isWs T) Lemmas.FixWsRuns.H s) :=
  Lemmas.FixWsRuns.fixWhitespace_eq s

/-- the model's regex engine decides matching exactly for patterns without look-around: it fails at a position iff
NO run of the pattern exists there (soundness `m_sound` + completeness `Run.complete`); the three patterns of
`fix_whitespace` are such patterns -/
theorem matcher_exact_on_fix_patterns (pre rest : List Char) :
    (matchAt T ws1Re pre rest = none ↔ ¬ ∃ st, Run T ws1Re ⟨pre, rest, []⟩ st) ∧
    (matchAt T ws2Re pre rest = none ↔ ¬ ∃ st, Run T ws2Re ⟨pre, rest, []⟩ st) ∧
    (matchAt T ws3Re pre rest = none ↔ ¬ ∃ st, Run T ws3Re ⟨pre, rest, []⟩ st) :=
  ⟨matchAt_none_iff (by decide) pre rest, matchAt_none_iff (by decide) pre rest, matchAt_none_iff (by decide) pre rest⟩

/-- a test, not the theorem: on a source where all three passes fire the second application is the identity and the
first is not -/
example : fixWhitespace (fixWhitespace "x = 1  \n\n\n\n\ndef f():\n    a = 1\n\n\n    b = 2\n\n\n".toList)
      = fixWhitespace "x = 1  \n\n\n\n\ndef f():\n    a = 1\n\n\n    b = 2\n\n\n".toList ∧
    fixWhitespace "x = 1  \n\n\n\n\ndef f():\n    a = 1\n\n\n    b = 2\n\n\n".toList
      = "x = 1\n\n\ndef f():\n    a = 1\n\n    b = 2\n".toList := by decide

/-! ## `textwrap` core (`_wrap_chunks`): words are kept, width is respected
(helper lemmas and proofs: `Lemmas/Textwrap.lean`) -/

open GapicModel.Lemmas.Textwrap (lenSum wordsOf)

open GapicModel.Model.Wrap in
/-- **`_wrap_chunks` never drops, duplicates or reorders a word**: the non-blank chunks of the emitted
lines, in order, are exactly the non-blank chunks it was given (any width, indents, chunk list). -/
theorem textwrap_words_preserved (t : ClassTables) (width iiLen siLen : Nat) :
    ∀ (fuel : Nat) (first : Bool) (cs : List Str), cs.length < fuel →
      wordsOf t (wrapCur t width iiLen siLen fuel first cs).flatten = wordsOf t cs :=
  Lemmas.Textwrap.words_preserved t width iiLen siLen

open GapicModel.Model.Wrap in
/-- **Width bound**: every emitted line either fits (chunk lengths + its indent ≤ width) or consists of
a single chunk (one unbreakable word). The first emitted line is measured with `initial_indent`. -/
theorem textwrap_width_bound (t : ClassTables) (width iiLen siLen : Nat) :
    ∀ (fuel : Nat) (first : Bool) (cs : List Str),
      match wrapCur t width iiLen siLen fuel first cs with
      | [] => True
      | l :: ls => (lenSum l ≤ width - (if first then iiLen else siLen) ∨ l.length ≤ 1) ∧
                   ∀ l' ∈ ls, (lenSum l' ≤ width - siLen ∨ l'.length ≤ 1) :=
  Lemmas.Textwrap.width_bound t width iiLen siLen


/-! ## `gapic.utils.lines.wrap` as a whole (helper lemmas: `Lemmas/Words`, `WrapWords`, `TextwrapWords`,
`WrapColon`, `WrapWhole`) -/

open GapicModel.Lemmas.Words (words)

open GapicModel.Model.Wrap in
/-- **Wrapping a comment never drops, duplicates or reorders its words** — full strength: for EVERY text,
width, offset and indent for which the model of `lines.wrap` returns, the words (`str.split()`: maximal
runs of non-whitespace) of the result are exactly the words of the text, in order.  The statement needed
the hypothesis `text does not start with whitespace` on the tree before `fix:` be75097 (the excluded point
`wrap('   ' + 'x'*30, 20)` repeated the tail of the word on the real code); with the fix it needs none. -/
theorem wrap_words_preserved (text : List Char) (width : Int) (offset : Option Int) (indent : Nat) (out : List Char)
    (h : wrap T text width offset indent = some out) : words T out = words T text :=
  Lemmas.WrapWhole.wrap_words text width offset indent out h

open GapicModel.Model.Wrap in
/-- **`wrap` returns (raises nothing) whenever `0 < width` and `offset < width`** — the property's own
bounds; together with `wrap_words_preserved` this is word preservation for every call in the quantifier.
(`none` in the model stands for the ValueError of `textwrap` on a non-positive width and for the former
IndexError on a blank first line.) -/
theorem wrap_never_raises (text : List Char) (width : Int) (offset : Option Int) (indent : Nat)
    (hw : 0 < width) (ho : offset.getD indent < width) : (wrap T text width offset indent).isSome = true :=
  Lemmas.WrapWhole.wrap_isSome text width offset indent hw ho

open GapicModel.Model.Wrap GapicModel.Lemmas.WrapWidth in
/-- **Wrapping never exceeds the requested width except for a single unbreakable word** — `lines.wrap` as a
whole, string level: every line (`out.split("\n")`) of the result has at most `width` characters or is ONE
unbreakable word (no ASCII whitespace — what `textwrap` may break at) behind an indent of spaces
(`LineOK`/`OneChunk`, `Lemmas/WrapWidth.lean`), and the first line has at most `width - offset` characters or
is one unbreakable word. Hypothesis: the offset is not negative (the property's `offset < width` is only
needed for `wrap_never_raises`). -/
theorem wrap_width_bound (text : List Char) (width : Int) (offset : Option Int) (indent : Nat) (out : List Char)
    (ho0 : 0 ≤ offset.getD indent) (h : wrap T text width offset indent = some out) :
    (∀ l ∈ splitOn '\n' out, LineOK width.toNat l) ∧
      (∀ l0, (splitOn '\n' out).head? = some l0 → LineOK (width - offset.getD indent).toNat l0) :=
  Lemmas.WrapWidth.wrap_width text width offset indent out ho0 h

open GapicModel.Model.Wrap GapicModel.Lemmas.WrapWidth in
/-- non-vacuity of `wrap_width_bound`: a line that exceeds the width is exactly the unbreakable-word case -/
example : wrap T "do-not-break me".toList 5 none 0 = some "do-not-break\nme".toList ∧
    OneChunk "do-not-break".toList := by
  refine ⟨by decide, [], "do-not-break".toList, rfl, by simp, by decide⟩

open GapicModel.Model.Wrap in
/-- **Comments reach docstrings intact** (plain-text path of `rst()`, the one every comment without a
formatting character takes): for a text without double quotes and backslashes — the characters the quote
guard of `rst()` rewrites on purpose — the words of what is placed in the docstring are exactly the words of
the comment, for every width, indent and `nl`. (`Metadata.doc` only strips or joins the comment's blocks:
`Lemmas.WrapWords.strip_words`.) -/
theorem plain_comment_words_reach_docstring (text : List Char) (width : Int) (indent : Nat) (nl : Option Bool)
    (out : List Char) (hq : '"' ∉ text) (hb : '\\' ∉ text) (h : rstFast T text width indent nl = some out) :
    words T out = words T text :=
  Lemmas.RstWords.rstFast_words text width indent nl out hq hb h

open GapicModel.Model.Wrap in
/-- non-vacuity: a comment that is re-wrapped on the fast path -/
example : rstFast T "The quick brown fox jumps over the lazy dog near the bank".toList 30 4 none
    = some "The quick brown fox\n    jumps over the lazy\n    dog near the bank\n    ".toList := by decide

/-- `Metadata.doc` (translated from the current source on every run, `Pinned.Funcs.metadata_doc`) keeps the words of
the comment block it selects: the leading comment if there is one, else the trailing comment, else the
detached comments joined by blank lines -/
theorem doc_words_are_the_comments_words (leading trailing : List Char) (detached : List (List Char)) :
    words T (Pinned.Funcs.metadata_doc leading trailing detached) =
      words T (if leading ≠ [] then leading else if trailing ≠ [] then trailing
               else PyRt.join ['\n', '\n'] detached) := by
  unfold Pinned.Funcs.metadata_doc
  have hstrip : ∀ x : List Char, words T (PyRt.strip x) = words T x := fun x => Lemmas.WrapWords.strip_words x
  by_cases h1 : leading = []
  · by_cases h2 : trailing = []
    · by_cases h3 : detached = []
      · subst h1; subst h2; subst h3; simp [PyRt.truthy, PyRt.join]
      · have : PyRt.truthy detached = true := by cases detached <;> simp_all [PyRt.truthy]
        subst h1; subst h2; simp [PyRt.truthy, h3, show Char.ofNat 10 = '\n' from by decide]
    · have : PyRt.truthy trailing = true := by cases trailing <;> simp_all [PyRt.truthy]
      subst h1; simp [PyRt.truthy, this, h2, hstrip]
  · have : PyRt.truthy leading = true := by cases leading <;> simp_all [PyRt.truthy]
    simp [this, h1, hstrip]

open GapicModel.Model.Wrap in
/-- **End to end on the plain-text path**: the words of the docstring text produced from a leading comment
(`rst(meta.doc, …)`, no formatting character, no double quote, no backslash) are the words of the comment -/
theorem leading_comment_words_reach_docstring (leading trailing : List Char) (detached : List (List Char))
    (width : Int) (indent : Nat) (nl : Option Bool) (out : List Char) (hne : leading ≠ [])
    (hq : '"' ∉ leading) (hb : '\\' ∉ leading)
    (h : rstFast T (Pinned.Funcs.metadata_doc leading trailing detached) width indent nl = some out) :
    words T out = words T leading := by
  have hdoc : Pinned.Funcs.metadata_doc leading trailing detached = PyRt.strip leading := by
    unfold Pinned.Funcs.metadata_doc
    have : PyRt.truthy leading = true := by cases leading <;> simp_all [PyRt.truthy]
    simp [this]
  rw [hdoc] at h
  have hsub : ∀ c, c ∈ PyRt.strip leading → c ∈ leading := by
    intro c hc
    have h1 : c ∈ PyRt.lstrip leading := by
      unfold PyRt.strip PyRt.rstrip at hc
      have := List.mem_reverse.mp hc
      exact List.mem_reverse.mp ((List.dropWhile_sublist _).subset this)
    exact (List.dropWhile_sublist _).subset h1
  rw [plain_comment_words_reach_docstring _ width indent nl out (fun hm => hq (hsub _ hm)) (fun hm => hb (hsub _ hm)) h]
  exact Lemmas.WrapWords.strip_words leading

/-- the colon rule of `wrap` (`re.sub(r":\n([^\n])", r":\n\n\1", text)`), run by the regex engine on the
pattern the translator extracts from the source, IS the plain function `colonSub` the proof reasons about -/
theorem wrapColon_regex_is_colonSub (s : List Char) :
    pySub T Pinned.wrapColon.re Pinned.wrapColonRepl s = Lemmas.WrapColon.colonSub s :=
  Lemmas.WrapColon.pySub_colon s

open GapicModel.Model.Wrap in
/-- `textwrap.fill`, string level: the words of the filled text are the words of the input (any width > 0,
blank indents) -/
theorem textwrap_fill_words_preserved (text : List Char) (width : Int) (ii si : List Char)
    (hii : ∀ c ∈ ii, Model.Wrap.isWs T c = true) (hsi : ∀ c ∈ si, Model.Wrap.isWs T c = true) (out : List Char)
    (h : textwrapFill T text width ii si = some out) : words T out = words T text :=
  Lemmas.TextwrapWords.fill_words text width ii si hii hsi out h

/-! ## Docstring safety of `rst()` (both branches share this tail) -/

/-- a text is safe to place right before the closing `"""` of a (raw) docstring -/
def DocSafe (s : List Char) : Prop :=
  (∀ pre post, s ≠ pre ++ '"' :: '"' :: '"' :: post) ∧ s.getLast? ≠ some '"' ∧ s.getLast? ≠ some '\\'

section AuxDoc
open GapicModel.Model.Wrap

theorem replaceTQ_q3 (r : List Char) : replaceTQ ('"' :: '"' :: '"' :: r) = '\'' :: '\'' :: '\'' :: replaceTQ r := by
  simp [replaceTQ]

theorem replaceTQ_step (c : Char) (r : List Char) (h : ¬ ∃ r', c = '"' ∧ r = '"' :: '"' :: r') :
    replaceTQ (c :: r) = c :: replaceTQ r := by
  conv => lhs; unfold replaceTQ
  split
  · rename_i heq; simp at heq; exact absurd ⟨_, heq.1, heq.2⟩ h
  · rename_i heq; simp at heq; rw [heq.1, heq.2]
  · rename_i heq; simp at heq

/-- after the replacement a text never STARTS with three double quotes -/
theorem replaceTQ_head (s : List Char) : ∀ post, replaceTQ s ≠ '"' :: '"' :: '"' :: post := by
  intro post heq
  match s with
  | [] => simp [replaceTQ] at heq
  | c :: r =>
    by_cases h3 : ∃ r', c = '"' ∧ r = '"' :: '"' :: r'
    · obtain ⟨r', hc, hr⟩ := h3; subst hc hr
      rw [replaceTQ_q3] at heq; simp at heq
    · rw [replaceTQ_step c r h3] at heq
      simp only [List.cons.injEq] at heq
      obtain ⟨hc, hr⟩ := heq
      subst hc
      match r with
      | [] => simp [replaceTQ] at hr
      | d :: r2 =>
        by_cases h3' : ∃ r', d = '"' ∧ r2 = '"' :: '"' :: r'
        · obtain ⟨r', hd, hr2⟩ := h3'; subst hd hr2
          rw [replaceTQ_q3] at hr; simp at hr
        · rw [replaceTQ_step d r2 h3'] at hr
          simp only [List.cons.injEq] at hr
          obtain ⟨hd, hr2⟩ := hr
          subst hd
          match r2 with
          | [] => simp [replaceTQ] at hr2
          | e :: r3 =>
            by_cases h3'' : ∃ r', e = '"' ∧ r3 = '"' :: '"' :: r'
            · obtain ⟨r', he, hr3⟩ := h3''; subst he hr3
              rw [replaceTQ_q3] at hr2; simp at hr2
            · rw [replaceTQ_step e r3 h3''] at hr2
              simp only [List.cons.injEq] at hr2
              obtain ⟨he, _⟩ := hr2
              subst he
              exact h3 ⟨r3, rfl, rfl⟩

theorem replaceTQ_no_tq : ∀ (n : Nat) (s : List Char), s.length ≤ n →
    ∀ pre post, replaceTQ s ≠ pre ++ '"' :: '"' :: '"' :: post := by
  intro n
  induction n with
  | zero =>
    intro s h pre post
    have : s = [] := by cases s <;> simp_all
    subst this; simp [replaceTQ]
  | succ n ih =>
    intro s h pre post heq
    cases pre with
    | nil => exact replaceTQ_head s post heq
    | cons p pre' =>
      match s, h with
      | [], _ => simp [replaceTQ] at heq
      | c :: r, h =>
        by_cases h3 : ∃ r', c = '"' ∧ r = '"' :: '"' :: r'
        · obtain ⟨r', hc, hr⟩ := h3
          subst hc hr
          rw [replaceTQ_q3] at heq
          match pre', heq with
          | [], heq => simp at heq
          | [q], heq => simp at heq
          | q1 :: q2 :: pre'', heq =>
            simp only [List.cons_append, List.cons.injEq] at heq
            exact ih r' (by simp at h; omega) pre'' post heq.2.2.2
        · rw [replaceTQ_step c r h3] at heq
          simp only [List.cons_append, List.cons.injEq] at heq
          exact ih r (by simp at h; omega) pre' post heq.2

end AuxDoc

open GapicModel.Model.Wrap in
/-- **Text placed in a docstring cannot terminate it early**: whatever `wrap` (or pandoc) produced,
the tail of `rst()` returns a text without a triple double-quote that ends neither in a double quote
nor in a backslash.  All answers, indents and `nl` settings. -/
theorem rst_output_doc_safe (answer : List Char) (indent : Nat) (nl : Option Bool) :
    DocSafe (rstTail answer indent nl) := by
  unfold rstTail
  generalize (if nl = some true ∨ (answer.contains '\n' = true ∧ nl = none) then answer ++ ['\n'] ++ List.replicate indent ' ' else answer) = a
  have hno := replaceTQ_no_tq (a.length) a (Nat.le_refl _)
  simp only []
  split
  · refine ⟨?_, by simp, by simp⟩
    intro pre post heq
    rcases List.eq_nil_or_concat post with hp | ⟨post', z, hp⟩
    · subst hp
      have := congrArg List.getLast? heq
      simp at this
    · subst hp
      have h' : replaceTQ a ++ ['.'] = (pre ++ '"' :: '"' :: '"' :: post') ++ [z] := by
        rw [heq]; simp
      have := List.append_inj' h' rfl
      exact hno pre post' this.1
  · rename_i hlast
    simp only [not_or] at hlast
    exact ⟨hno, hlast.1, hlast.2⟩

/-! ## Non-vacuity / regression witnesses evaluated on the model -/

example : fixWhitespace "x = 1  \n\n\n\n\ndef f():\n    a = 1\n\n\n    b = 2\n\n\n".toList
    = "x = 1\n\n\ndef f():\n    a = 1\n\n    b = 2\n".toList := by decide

open GapicModel.Model.Wrap in
/-- the tab input that lost the word "eta" before the C20 `fix:` commit keeps all its words now -/
theorem wrap_tab_regression :
    wrap Pinned.classTables "alpha\tbeta gamma delta epsilon zeta eta theta iota kappa".toList 40 none 0
      = some "alpha   beta gamma delta epsilon zeta\neta theta iota kappa".toList := by decide

open GapicModel.Model.Wrap in
/-- the input that repeated the tail of its first word before `fix:` be75097 (leading whitespace, first word
wider than the line): one word in, one word out -/
theorem wrap_leading_ws_regression :
    wrap Pinned.classTables ("   " ++ "xxxxxxxxxxxxxxxxxxxxxxxxxxxxxx").toList 20 none 0
      = some "xxxxxxxxxxxxxxxxxxxxxxxxxxxxxx".toList := by decide

open GapicModel.Model.Wrap in
/-- the blank first line that raised IndexError before `fix:` be75097 -/
theorem wrap_blank_regression : wrap Pinned.classTables "     ".toList 4 none 0 = some [] := by decide

open GapicModel.Model.Wrap in
/-- non-vacuity of `wrap_words_preserved` / `wrap_never_raises`: a text that is really re-wrapped -/
example : wrap T "foo bar baz".toList 5 none 0 = some "foo\nbar\nbaz".toList ∧
    words T "foo\nbar\nbaz".toList = ["foo".toList, "bar".toList, "baz".toList] := by decide

open GapicModel.Model.Wrap in
example : rstTail ['a', '"', '"', '"', 'b', '\\'] 4 none = ['a', '\'', '\'', '\'', 'b', '\\', '.'] := by decide

/-! ## The hand-written list-marker helpers ARE the code's current functions
`Pinned.Funcs.*` are the Lean translations of `gapic/utils/lines.py: is_list_item` and
`get_subsequent_line_indentation_level` produced by harness/pyfun2lean.py; `Bridge.Funcs.*` re-proves on every run that
translating /repo's current source gives the same definitions. -/

section Translated
open GapicModel.PyRt

theorem take2_eq_prefix (s : List Char) (a b : Char) : (s.take 2 == [a, b]) = [a, b].isPrefixOf s := by
  rcases s with _ | ⟨x, _ | ⟨y, t⟩⟩
  · simp [List.isPrefixOf]
  · simp [List.isPrefixOf]
  · simp only [List.take, List.isPrefixOf, Bool.and_true]
    rw [Bool.eq_iff_iff]
    simp only [List.cons.injEq, and_true, beq_iff_eq, Bool.and_eq_true]
    constructor <;> rintro ⟨rfl, rfl⟩ <;> exact ⟨rfl, rfl⟩

theorem slice02 (s : List Char) : slice s (some 0) (some 2) = s.take 2 := by
  rcases s with _ | ⟨x, _ | ⟨y, t⟩⟩ <;> simp [slice, normIdx]

theorem numbered_eq (s : List Char) :
    GapicModel.Model.Wrap.numberedList Pinned.classTables s =
      reMatch (.seq .bol (.seq (.seq (.cls false [.digit]) (.star (.cls false [.digit]) true)) (.seq (.chr '.') (.chr ' ')))) s := rfl

theorem isListItem_is_translated (s : List Char) :
    GapicModel.Model.Wrap.isListItem Pinned.classTables s = Pinned.Funcs.is_list_item s := by
  simp only [GapicModel.Model.Wrap.isListItem, Pinned.Funcs.is_list_item, numbered_eq, len, startswith, take2_eq_prefix]
  by_cases h : s.length < 3
  · have : ((s.length : Int) < 3) := by omega
    simp [h, this]
  · have : ¬ ((s.length : Int) < 3) := by omega
    simp [h, this]

theorem subsequentLevel_is_translated (s : List Char) :
    (GapicModel.Model.Wrap.subsequentLevel Pinned.classTables s : Int) = Pinned.Funcs.get_subsequent_line_indentation_level s := by
  simp only [GapicModel.Model.Wrap.subsequentLevel, Pinned.Funcs.get_subsequent_line_indentation_level, numbered_eq,
    len, strIn, slice02]
  by_cases hn : reMatch (.seq .bol (.seq (.seq (.cls false [.digit]) (.star (.cls false [.digit]) true)) (.seq (.chr '.') (.chr ' ')))) s = true <;>
  by_cases h2 : s.length ≥ 2 <;> by_cases h4 : s.length ≥ 4 <;>
    by_cases hp : (s.take 2 == ['-', ' '] || s.take 2 == ['+', ' ']) = true <;>
    simp_all <;> (repeat' split) <;> omega

end Translated

section TranslatedFix
open GapicModel.PyRt

/-- **`fixWhitespace` IS the code's current `fix_whitespace`**: the three substitutions (patterns re-parsed by CPython from
the current source), their order, `rstrip()` and the final newline, as translated from `gapic/generator/formatter.py` on
every run (`Bridge.Funcs.fix_whitespace`) -/
theorem fixWhitespace_is_translated (s : List Char) :
    GapicModel.Model.Whitespace.fixWhitespace s = Pinned.Funcs.fix_whitespace s := by
  simp only [GapicModel.Model.Whitespace.fixWhitespace, GapicModel.Model.Whitespace.fixWhitespaceWith, Pinned.Funcs.fix_whitespace, reSub, PyRt.rstrip]
  rfl

end TranslatedFix

end GapicModel.Props.C20
