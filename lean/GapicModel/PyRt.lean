import GapicModel.Regex.Match
import GapicModel.Pinned.CharClass
/-
Run-time library of the FUNCTION translator (harness/pyfun2lean.py, DESIGN §12.6): the Python `str` / `list` /
`re` operations that translated function bodies call.  Strings are `List Char`, ints are `Int`.
Hand-written and in the trusted base; every primitive is compared with CPython on random inputs by the
`pyrt.*` driver ops (harness/props/pyrt.py, run by every check that uses a translated function).
Deliberate restrictions (the translator refuses, or the harness marks the input unsupported, outside them):
  * `lower` / `upper` / `capitalize` are the ASCII maps (CPython's are full Unicode): inputs are ASCII;
  * `replace` / `split` take a non-empty separator;
  * index expressions `s[k]` / `xs[k]` (constant `k`) are total here (`idxStr` / `idxList` answer `[]` out of range) and every
    translated function that contains one gets a companion `<f>_ok` that is true exactly when all the index expressions
    evaluated on the path taken are in range — Python raises IndexError exactly when it is false; theorems carry it as a
    hypothesis, the driver answers `raised: IndexError` when it is false, T2 compares that with CPython too;
  * a match object is its group 0 (`Option Str`); `m[0]` is only translated under `if m …:`.
No Mathlib.
-/
namespace GapicModel.PyRt
open GapicModel.Regex

abbrev Str := List Char

def T : ClassTables := Pinned.classTables

def len {α} (s : List α) : Int := s.length
def truthy {α} (s : List α) : Bool := !s.isEmpty

def normIdx (n : Nat) (i : Int) : Nat :=
  if i < 0 then (if (n : Int) + i < 0 then 0 else ((n : Int) + i).toNat) else min i.toNat n

/-- `s[a:b]` with Python's clamping and negative indices -/
def slice {α} (s : List α) (a b : Option Int) : List α :=
  let n := s.length
  let lo := match a with | none => 0 | some i => normIdx n i
  let hi := match b with | none => n | some i => normIdx n i
  (s.take hi).drop lo

def startswith (s p : Str) : Bool := p.isPrefixOf s
def endswith (s p : Str) : Bool := p.isSuffixOf s

/-- `sub in s` -/
def contains (sub : Str) : Str → Bool
  | [] => sub.isEmpty
  | c :: cs => sub.isPrefixOf (c :: cs) || contains sub cs

def isWs (c : Char) : Bool := inRanges T.space c
def lstrip (s : Str) : Str := s.dropWhile isWs
def rstrip (s : Str) : Str := (s.reverse.dropWhile isWs).reverse
def strip (s : Str) : Str := rstrip (lstrip s)

def lowerC (c : Char) : Char := if 'A' ≤ c ∧ c ≤ 'Z' then Char.ofNat (c.toNat + 32) else c
def upperC (c : Char) : Char := if 'a' ≤ c ∧ c ≤ 'z' then Char.ofNat (c.toNat - 32) else c
def lower (s : Str) : Str := s.map lowerC
def upper (s : Str) : Str := s.map upperC
def capitalize : Str → Str
  | [] => []
  | c :: cs => upperC c :: lower cs

def replaceAux (old new : Str) : Nat → Str → Str
  | _, [] => []
  | skip + 1, _ :: cs => replaceAux old new skip cs
  | 0, c :: cs =>
    if old.isPrefixOf (c :: cs) then new ++ replaceAux old new (old.length - 1) cs
    else c :: replaceAux old new 0 cs

/-- `s.replace(old, new)`, `old` non-empty -/
def replace (s old new : Str) : Str := replaceAux old new 0 s

def replaceNAux (old new : Str) : Nat → Nat → Str → Str
  | _, _, [] => []
  | n, skip + 1, _ :: cs => replaceNAux old new n skip cs
  | 0, 0, c :: cs => c :: cs
  | n + 1, 0, c :: cs =>
    if old.isPrefixOf (c :: cs) then new ++ replaceNAux old new n (old.length - 1) cs
    else c :: replaceNAux old new (n + 1) 0 cs

/-- `s.replace(old, new, count)`, `old` non-empty, `count ≥ 0` -/
def replaceN (s old new : Str) (count : Int) : Str :=
  if count < 0 then replace s old new else replaceNAux old new count.toNat 0 s

def splitAux (sep : Str) : Nat → Str → Str → List Str
  | _, cur, [] => [cur.reverse]
  | skip + 1, cur, _ :: cs => splitAux sep skip cur cs
  | 0, cur, c :: cs =>
    if sep.isPrefixOf (c :: cs) then cur.reverse :: splitAux sep (sep.length - 1) [] cs
    else splitAux sep 0 (c :: cur) cs

/-- `s.split(sep)`, `sep` non-empty -/
def split (s sep : Str) : List Str := splitAux sep 0 [] s

def join (sep : Str) : List Str → Str
  | [] => []
  | [a] => a
  | a :: b :: r => a ++ sep ++ join sep (b :: r)

/-- `xs[0]` of a list that cannot be empty (`str.split` results) -/
def head0 (xs : List Str) : Str := xs.headD []

def expandtabsAux : Str → Nat → Str
  | [], _ => []
  | c :: cs, col =>
    if c = '\t' then
      let n := 8 - col % 8
      List.replicate n ' ' ++ expandtabsAux cs (col + n)
    else if c = '\n' ∨ c = '\r' then c :: expandtabsAux cs 0
    else c :: expandtabsAux cs (col + 1)
def expandtabs (s : Str) : Str := expandtabsAux s 0

def reSub (p : Re) (r : List RItem) (s : Str) : Str := pySub T p r s
def reMatch (p : Re) (s : Str) : Bool := (pyMatch T p s).isSome
def reSearch (p : Re) (s : Str) : Bool := (pySearch T p s).isSome
def reFullmatch (p : Re) (s : Str) : Bool := (pyFullmatch T p s).isSome

/-- `re.split(p, s)` for a pattern without groups that cannot match the empty string (the translator checks both) -/
def reSplitAux (p : Re) : Nat → Str → Str → Str → List Str
  | 0, _, cur, rest => [cur.reverse ++ rest]
  | _ + 1, _, cur, [] => [cur.reverse]
  | n + 1, pre, cur, c :: cs =>
    match matchAt T p pre (c :: cs) with
    | some st =>
      if st.pre.length ≤ pre.length then reSplitAux p n (c :: pre) (c :: cur) cs
      else cur.reverse :: reSplitAux p n st.pre [] st.rest
    | none => reSplitAux p n (c :: pre) (c :: cur) cs
def reSplit (p : Re) (s : Str) : List Str := reSplitAux p (s.length + 1) [] [] s

/-- Python's `<` on str: lexicographic by code point -/
def ltStr : Str → Str → Bool
  | [], [] => false
  | [], _ :: _ => true
  | _ :: _, [] => false
  | a :: as, b :: bs => if a.toNat < b.toNat then true else if b.toNat < a.toNat then false else ltStr as bs

def insertStr (x : Str) : List Str → List Str
  | [] => [x]
  | y :: ys => if ltStr y x then y :: insertStr x ys else x :: y :: ys      -- after the elements strictly smaller: equal strings are equal

/-- `sorted(xs)` for a list (or set) of str -/
def sortStr (xs : List Str) : List Str := xs.foldr insertStr []

/-- `set(xs)` as a duplicate-free list (only ever consumed by `sorted` or a truth test) -/
def dedup (xs : List Str) : List Str := xs.eraseDups

def strIn (x : Str) (xs : List Str) : Bool := xs.contains x

/-- `-n ≤ k < n`: the index `k` is valid for a sequence of length `n` -/
def inRange (n : Int) (k : Int) : Bool := decide (-n ≤ k) && decide (k < n)

/-- `xs[k]` (total: `[]` when out of range, see `inRange`) -/
def idxList (xs : List Str) (k : Int) : Str :=
  if k < 0 then (if (xs.length : Int) + k < 0 then [] else xs.getD ((xs.length : Int) + k).toNat [])
  else xs.getD k.toNat []

/-- `s[k]` as a one-character string (total: `[]` when out of range) -/
def idxStr (s : Str) (k : Int) : Str :=
  if k < 0 then (if (s.length : Int) + k < 0 then [] else ((s.drop ((s.length : Int) + k).toNat).take 1))
  else (s.drop k.toNat).take 1

/-- `re.match(p, s)` as its group 0 -/
def reMatchText (p : Re) (s : Str) : Option Str := (pyMatch T p s).map fun m => s.take m.stop
/-- `m[0]` of a match object known to be truthy -/
def matchText (m : Option Str) : Str := m.getD []

/-- `gapic.utils.imp.Import(package, module, alias)` -/
structure PyImport where
  package : List Str
  module : Str
  alias : Str
deriving Repr, DecidableEq

end GapicModel.PyRt
