import GapicModel.Regex.Syntax
/-
Continuation-passing backtracking matcher with Python's priority order.
`star` iterates with fuel = remaining input length and refuses iterations that do not consume.
-/
namespace GapicModel.Regex

structure St where
  pre  : List Char                    -- consumed so far, reversed (the whole subject before the cursor)
  rest : List Char
  caps : List (Nat × List Char)       -- most recent first; lookup = first hit
deriving Repr, DecidableEq

abbrev K := St → Option St

def capture (s s' : St) : List Char := (s'.pre.take (s'.pre.length - s.pre.length)).reverse

/-- iteration of a `star` body: `step` is the matcher of the body; fuel bounds the number of
iterations by the remaining input length; an iteration that consumes nothing is refused. -/
def starLoop (step : St → K → Option St) (g : Bool) (k : K) : Nat → St → Option St
  | 0, s => k s
  | n+1, s =>
    if g then
      (step s (fun s' => if s'.rest.length < s.rest.length then starLoop step g k n s' else none)).orElse (fun _ => k s)
    else
      (k s).orElse (fun _ => step s (fun s' => if s'.rest.length < s.rest.length then starLoop step g k n s' else none))

def m (t : ClassTables) : Re → St → K → Option St
  | .eps, s, k => k s
  | .chr c, s, k =>
      match s.rest with
      | d :: r => if c = d then k { s with pre := d :: s.pre, rest := r } else none
      | [] => none
  | .any, s, k =>
      match s.rest with
      | d :: r => if d ≠ '\n' then k { s with pre := d :: s.pre, rest := r } else none
      | [] => none
  | .cls neg items, s, k =>
      match s.rest with
      | d :: r => if clsTest t neg items d then k { s with pre := d :: s.pre, rest := r } else none
      | [] => none
  | .seq a b, s, k => m t a s (fun s' => m t b s' k)
  | .alt a b, s, k => (m t a s k).orElse (fun _ => m t b s k)
  | .star r g, s, k => starLoop (m t r) g k s.rest.length s
  | .group idx r, s, k => m t r s (fun s' => k { s' with caps := (idx, capture s s') :: s'.caps })
  | .bol, s, k => if s.pre = [] then k s else none
  | .eol, s, k => if s.rest = [] ∨ s.rest = ['\n'] then k s else none
  | .look true neg r, s, k =>
      let hit := (m t r s some).isSome
      if hit != neg then k s else none
  | .look false neg r, s, k =>
      -- one-character look-behind: run `r` on the previous character alone
      let hit := match s.pre with
        | [] => false
        | p :: _ => (m t r ⟨[], [p], []⟩ (fun s' => if s'.rest = [] then some s' else none)).isSome
      if hit != neg then k s else none

/-- A successful match: span [start, stop) as char offsets into the subject, and groups. -/
structure MatchRes where
  start : Nat
  stop : Nat
  caps : List (Nat × List Char)
deriving Repr, DecidableEq

def St.group? (caps : List (Nat × List Char)) (i : Nat) : Option (List Char) :=
  (caps.find? (·.1 == i)).map (·.2)

/-- `re.match`: anchored at the start of the subject. -/
def matchAt (t : ClassTables) (r : Re) (pre rest : List Char) : Option St :=
  m t r ⟨pre, rest, []⟩ some

def pyMatch (t : ClassTables) (r : Re) (s : List Char) : Option MatchRes :=
  (matchAt t r [] s).map fun st => ⟨0, st.pre.length, st.caps⟩

/-- `re.search`: left-most match. -/
def searchFrom (t : ClassTables) (r : Re) : List Char → List Char → Option (St × St)
  | pre, [] => (matchAt t r pre []).map fun st => (⟨pre, [], []⟩, st)
  | pre, c :: cs =>
      match matchAt t r pre (c :: cs) with
      | some st => some (⟨pre, c :: cs, []⟩, st)
      | none => searchFrom t r (c :: pre) cs

def pySearch (t : ClassTables) (r : Re) (s : List Char) : Option MatchRes :=
  (searchFrom t r [] s).map fun (s0, st) => ⟨s0.pre.length, st.pre.length, st.caps⟩

/-- `re.fullmatch`. -/
def pyFullmatch (t : ClassTables) (r : Re) (s : List Char) : Option MatchRes :=
  (m t r ⟨[], s, []⟩ (fun st => if st.rest = [] then some st else none)).map fun st => ⟨0, st.pre.length, st.caps⟩

/-- replacement template item -/
inductive RItem where
  | lit (cs : List Char)
  | grp (i : Nat)
deriving Repr, DecidableEq

def expand (caps : List (Nat × List Char)) : List RItem → List Char
  | [] => []
  | .lit cs :: r => cs ++ expand caps r
  | .grp i :: r => ((St.group? caps i).getD []) ++ expand caps r

/-- `re.sub` for patterns that never match the empty string (the translator checks
    `min width ≥ 1` for every pattern used with `sub`). Fuel = subject length + 1. -/
def subLoop (t : ClassTables) (r : Re) (repl : List RItem) : Nat → List Char → List Char → List Char
  | 0, _, rest => rest
  | n+1, pre, rest =>
    match rest with
    | [] => []
    | c :: cs =>
      match matchAt t r pre (c :: cs) with
      | some st =>
          if st.rest.length < (c :: cs).length then
            expand st.caps repl ++ subLoop t r repl n st.pre st.rest
          else c :: subLoop t r repl n (c :: pre) cs
      | none => c :: subLoop t r repl n (c :: pre) cs

def pySub (t : ClassTables) (r : Re) (repl : List RItem) (s : List Char) : List Char :=
  subLoop t r repl (s.length + 1) [] s

/-- `re.findall` for a pattern with exactly one group and no empty matches: list of group-1 values. -/
def findallLoop (t : ClassTables) (r : Re) (g : Nat) : Nat → List Char → List Char → List (List Char)
  | 0, _, _ => []
  | n+1, pre, rest =>
    match rest with
    | [] => []
    | c :: cs =>
      match matchAt t r pre (c :: cs) with
      | some st =>
          if st.rest.length < (c :: cs).length then
            ((St.group? st.caps g).getD []) :: findallLoop t r g n st.pre st.rest
          else findallLoop t r g n (c :: pre) cs
      | none => findallLoop t r g n (c :: pre) cs

def pyFindall1 (t : ClassTables) (r : Re) (s : List Char) : List (List Char) :=
  findallLoop t r 1 (s.length + 1) [] s

/-- right-nested sequence exactly as CPython's parser output is converted by the translator. -/
def seqR : List Re → Re
  | [] => .eps
  | [a] => a
  | a :: b :: r => .seq a (seqR (b :: r))

def adv (s : St) (cs : List Char) : St :=
  { s with pre := cs.reverse ++ s.pre, rest := s.rest.drop cs.length }

end GapicModel.Regex
