/-
Regex syntax: the subset of CPython `re` that gapic-generator-python uses (DESIGN §6.2).
No Mathlib. Character classes `\s \w \d` are decided by range tables passed in as a
`ClassTables` value (Pinned.CharClass provides CPython's tables, bridged to the live export).
-/
namespace GapicModel.Regex

/-- Unicode range tables for `\s`, `\w`, `\d` (inclusive code-point ranges). -/
structure ClassTables where
  space : List (Nat × Nat)
  word  : List (Nat × Nat)
  digit : List (Nat × Nat)
deriving Repr, DecidableEq

def inRanges (rs : List (Nat × Nat)) (c : Char) : Bool :=
  rs.any fun (lo, hi) => lo ≤ c.toNat && c.toNat ≤ hi

/-- Character class item. -/
inductive CItem where
  | ch (c : Char)
  | range (lo hi : Char)
  | space | word | digit
  | nspace | nword | ndigit
deriving Repr, DecidableEq

def CItem.test (t : ClassTables) : CItem → Char → Bool
  | .ch c, d => c == d
  | .range lo hi, d => lo.toNat ≤ d.toNat && d.toNat ≤ hi.toNat
  | .space, d => inRanges t.space d
  | .word, d => inRanges t.word d
  | .digit, d => inRanges t.digit d
  | .nspace, d => !inRanges t.space d
  | .nword, d => !inRanges t.word d
  | .ndigit, d => !inRanges t.digit d

def clsTest (t : ClassTables) (neg : Bool) (items : List CItem) (d : Char) : Bool :=
  (items.any fun i => i.test t d) != neg

inductive Re where
  | eps
  | chr (c : Char)
  | any                                   -- `.` without DOTALL: anything but '\n'
  | cls (neg : Bool) (items : List CItem)
  | seq (a b : Re)
  | alt (a b : Re)
  | star (r : Re) (greedy : Bool)
  | group (idx : Nat) (r : Re)            -- capturing group number `idx` (named groups: see `Regex.names`)
  | bol | eol                             -- `^`, `$` without MULTILINE
  | look (ahead : Bool) (neg : Bool) (r : Re)   -- `(?=r)` `(?!r)`; behind only for one-char `r` (`(?<=[..])`)
deriving Repr, DecidableEq

def lits : List Char → Re
  | [] => .eps
  | c :: cs => .seq (.chr c) (lits cs)

def seqs : List Re → Re
  | [] => .eps
  | [r] => r
  | r :: rs => .seq r (seqs rs)

def plus (r : Re) (greedy : Bool) : Re := .seq r (.star r greedy)
def opt (r : Re) (greedy : Bool) : Re := if greedy then .alt r .eps else .alt .eps r

/-- A compiled pattern: the AST plus the name → index map of `(?P<name>…)` groups and group count. -/
structure Pattern where
  re : Re
  ngroups : Nat
  names : List (String × Nat)
deriving Repr

end GapicModel.Regex
